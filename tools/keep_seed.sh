#!/bin/bash
# tools/keep_seed.sh <PROP> <name> '<demo command run in the worktree>' '<detected_by text>'
# Confirms a sub-agent's seeded change in its scratch worktree (/tmp/seed-<PROP>), stores it under
# /verif/seeded/<name>/ and removes the worktree.
PROP=$1; NAME=$2; DEMO=$3; DET=$4
WT=/tmp/seed-$PROP; OUT=/tmp/seed-$PROP-out
export GOFLAGS=-mod=mod GOPROXY=off
cd $WT || exit 2
echo "--- demo with change (must fail)"; bash -c "$DEMO" >/tmp/keep.$PROP.1 2>&1; rc1=$?; tail -3 /tmp/keep.$PROP.1
git diff > /tmp/keep.$PROP.patch; git apply -R /tmp/keep.$PROP.patch || exit 2
echo "--- demo without change (must pass)"; bash -c "$DEMO" >/tmp/keep.$PROP.2 2>&1; rc2=$?; tail -3 /tmp/keep.$PROP.2
git apply /tmp/keep.$PROP.patch
mkdir -p /tmp/keep-aside-$PROP; for f in $(git status --short | grep '^??' | awk '{print $2}'); do mkdir -p /tmp/keep-aside-$PROP/$(dirname $f); mv $f /tmp/keep-aside-$PROP/$f; done
PKGS=$(git diff --name-only | xargs -n1 dirname | sort -u | sed 's|^|./|' | tr '\n' ' ')
echo "--- existing tests with change: ./lang/... $PKGS"
go test -vet=off -count=1 ./lang/... $PKGS 2>&1 | grep -v "^ok\|no test files" | head -10; rc3=${PIPESTATUS[0]}
echo "rc demo-with=$rc1 demo-without=$rc2 tests=$rc3"
if [ $rc1 -ne 0 ] && [ $rc2 -eq 0 ] && [ $rc3 -eq 0 ]; then
  D=/verif/seeded/$NAME; mkdir -p $D; cp $OUT/patch.diff $D/; rm -rf $D/demo; cp -r $OUT/demo $D/demo
  jq --arg d "$DEMO" --arg det "$DET" --arg t "./lang/... $PKGS" '. + {confirmed: {demo_command: $d, demo_with_change: "fails", demo_without_change: "passes", existing_tests_with_change: ("go test -vet=off -count=1 " + $t + " : ok")}, detected_by: $det}' $OUT/meta.json > $D/meta.json || cp $OUT/meta.json $D/meta.json
  echo "KEPT $D"
else
  echo "NOT KEPT (worktree and output directory left in place)"
  cp -r /tmp/keep-aside-$PROP/. $WT/ 2>/dev/null
  exit 1
fi
cd /repo && git worktree remove --force $WT; rm -rf $OUT /tmp/keep-aside-$PROP /tmp/keep.$PROP.*
