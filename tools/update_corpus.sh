#!/bin/bash
# tools/update_corpus.sh [execs]: runs the native fuzz phases of C20 and C37 for <execs>
# executions and keeps the inputs that reached new coverage in /verif/corpus (committed),
# so later runs start from them. Never run by a registered check.
cd "$(dirname "$0")/.." || exit 2
E=${1:-5000000}
for P in C20 C37; do
  VERIF_SAVE_CORPUS=/verif/corpus VERIF_FUZZ_EXECS=$E ./check $P | tail -2
done
git checkout -- evidence 2>/dev/null
du -sh corpus; find corpus -type f | wc -l
