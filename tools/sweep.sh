#!/bin/bash
# tools/sweep.sh [seed] [tier]: runs every registered check in turn, prints one line per check
cd "$(dirname "$0")/.." || exit 2
S=${1:-1}; T=${2:-quick}
for id in $(python3 -c "import json; print(' '.join(c['property_id'] for c in json.load(open('MANIFEST.json'))['checks']))"); do
  VERIF_SEED=$S timeout ${SWEEP_TIMEOUT:-3600} ./check $id --tier $T 2>&1 | grep -E "^(SUMMARY|VIOLATION|BROKEN)" | cut -c1-260
  echo "rc[$id]=${PIPESTATUS[0]}"
done
