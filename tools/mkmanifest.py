#!/usr/bin/env python3
"""Regenerates /verif/MANIFEST.json from tools/manifest_table.json and the list
of monitors actually registered in the controller (bin/ctl -list)."""
import json, subprocess, sys, os
root = os.path.dirname(os.path.dirname(os.path.abspath(__file__)))
table = json.load(open(os.path.join(root, 'tools', 'manifest_table.json')))
built = subprocess.check_output([os.path.join(root, 'bin', 'ctl'), '-list']).decode().split()
desc = json.loads(subprocess.check_output([os.path.join(root, 'bin', 'ctl'), '-describe']).decode())
props = [json.loads(l)['id'] for l in open(os.path.join(root, 'properties.jsonl')) if l.strip()]
hooks = subprocess.check_output(['git', '-C', '/repo', 'log', '--format=%H %s']).decode().splitlines()
hook_commits = [l.split()[0] for l in hooks if l.split(' ', 1)[1].startswith('verif hook')]
checks, na = [], []
for pid in props:
    t = dict(table.get(pid, {}))
    d = desc.get(pid, {})
    t.setdefault('level', d.get('level', 'exploration'))
    t.setdefault('text', 'Runtime monitoring of the real code under generated workloads: ' + d.get('rule', '') + '. Verdict = held on the executions observed (counts and samples in the evidence file).')
    t.setdefault('note', 'Assumes: ' + '; '.join(d.get('assumptions') or ['the harness observation channel (in-process fork execution, captured stdout/stderr/exit) is faithful']))
    t.setdefault('technique', d.get('technique') or 'runtime monitoring: generated workload + reference-model oracle over observed executions')
    if pid in built and not t.get('unclaimed'):
        checks.append({
            "property_id": pid,
            "quick_cmd": f"./check {pid} --tier quick",
            "thorough_cmd": f"./check {pid} --tier thorough",
            "evidence_file": f"/verif/evidence/{pid}.json",
            "replay_cmd_template": f"./check {pid} --replay {{path}}",
            "engine": t.get("engine", "ctl+mxworker"),
            "level_claimed": {"category": t.get("level", "exploration"), "text": t["text"], "design_ref": f"DESIGN.md §4 {pid}"},
            "level_note": t["note"],
            "technique": t["technique"],
        })
    else:
        na.append({"property_id": pid, "reason": t.get("na_reason", "monitor designed in DESIGN.md §4 but not built yet in this tree; no claim is made")})
m = {
    "version": 1,
    "setup_cmd": "./tools/setup.sh",
    "hooks": {
        "guard": "verif",
        "enable": "go build -tags verif (harness module replaces github.com/lmorg/murex => /repo)",
        "baseline_off_cmd": "/verif/tools/baseline_off.sh",
        "source_commits": hook_commits,
        "add_only": True,
    },
    "engines": [
        {"name": "ctl+mxworker", "path": "/verif/harness", "serves_properties": [c["property_id"] for c in checks],
         "kind_free_text": "controller (generators, reference models, oracles, porcupine history checking; never links murex) driving child-process workers that link murex from /repo with -tags verif (optionally -race) and execute programs / API workloads in-process"},
        {"name": "go race detector", "path": "/verif/harness/cmd/mxworker", "serves_properties": ["C32"],
         "kind_free_text": "the same worker built with `go build -race -tags verif`, GORACE=halt_on_error=0 log_path=...; the controller parses and de-duplicates the report log"},
        {"name": "go native fuzzing", "path": "/verif/harness/fuzz", "serves_properties": ["C20", "C37"],
         "kind_free_text": "coverage-guided fuzz targets (FuzzParseBlock, FuzzHighlight) built with `go test -c -fuzz` from the working tree and run for a fixed number of executions, seeded with generated inputs and /verif/corpus"},
        {"name": "murex binary", "path": "/repo", "serves_properties": ["C10"],
         "kind_free_text": "`go build -tags verif` of /repo's main package, spawned as `murex --execute argvecho ...` with a private PATH"},
    ],
    "checks": checks,
    "not_applicable": na,
    "notes": "Runtime monitoring only. Known findings: /verif/known_findings.jsonl. See DESIGN.md.",
}
json.dump(m, open(os.path.join(root, 'MANIFEST.json'), 'w'), indent=1)
print(f"MANIFEST: {len(checks)} checks, {len(na)} not claimed")
