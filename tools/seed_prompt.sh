#!/bin/bash
# prints the prompt for a bug-seeding sub-agent for property $1 (only the
# property text and its own worktree; nothing from /verif)
P=$1
jq -r --arg p "$P" 'select(.id==$p) | "PROPERTY \(.id) — \(.title)\nStatement: \(.statement)\nQuantified over: \(.quantifier.text)\nAnchored in: \(.anchors.files|join(", "))"' /verif/properties.jsonl > /tmp/.prop.$P
cat <<EOT
You are helping to test a verification effort by seeding ONE realistic bug into a scratch copy of lmorg/murex (an interactive shell and scripting language written in Go).

Work ONLY inside the git worktree /tmp/seed-$P (already created, a checkout of the project) and write deliverables to /tmp/seed-$P-out/. Do NOT touch or read /repo or /verif. Do not commit anything.

$(cat /tmp/.prop.$P)

TASK: make a change to murex's non-test source that BREAKS this property while
 (a) still compiling (go build ./...),
 (b) still passing the project's existing tests (at least: go test -vet=off -count=1 for every package you touched plus ./lang/... and any builtins package that exercises the code; none of the existing *_test.go files may be edited), and
 (c) needing something SPECIFIC to manifest — a particular interleaving, a fault at a particular point, a multi-step sequence of operations, an unusual input or boundary value, or two cooperating sites that each look fine alone — NOT something that ordinary everyday use would expose at once. It should look like a plausible mistake or an over-eager optimisation/refactor a maintainer could make, not sabotage.
${2:+A previous exercise already covered this idea, so pick a DIFFERENT mechanism, code area and trigger: $2
}Also write a DEMONSTRATION: a Go test file (placed in the worktree, new file) or a small script/program that FAILS with your change and PASSES without it.

Environment: no network. Before any go command: export GOFLAGS=-mod=mod GOPROXY=off (do not set GOTOOLCHAIN or GOSUMDB). Build the shell with: go build -o /tmp/seed-$P-out/murex . ; run code with: /tmp/seed-$P-out/murex -c '<murex code>'. In-process test helper: github.com/lmorg/murex/test (test.RunMurexTests). Use default build tags. Keep go test invocations scoped to packages (the full suite takes ~10 min; you may run it once at the end: go test -vet=off -count=1 ./... ).

Verify yourself: with the change the demo fails; after reverting the source change (save it with "git diff > /tmp/seed-$P-out/patch.diff" and flip it with "git apply -R" / "git apply"; NEVER use "git stash": the stash is shared with other worktrees of this repository and other people are using it) the demo passes; the existing tests pass with the change.

DELIVERABLES in /tmp/seed-$P-out/:
 - patch.diff : git diff of the SOURCE change only (not the demo), applicable with git apply from the repo root
 - demo/ : the demonstration file(s) and a README with the exact commands to run it (for a Go test: where to copy it and the go test command)
 - meta.json : {"property": "$P", "summary": "...", "needs_to_manifest": "...", "files_touched": [...], "commands_run": [...], "existing_tests_run": "...result..."}
Finally reply with a short report (what you changed, why tests miss it, how to see it). Leave the worktree with your change applied.
EOT
