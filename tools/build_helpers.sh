#!/bin/bash
# builds the helper executables that make up the workers' private PATH
set -e
cd "$(dirname "$0")/.."
mkdir -p bin/helpers
export GOFLAGS=-mod=mod GOPROXY=off
( cd harness && go build -o ../bin/helpers/argvecho ./cmd/helpers/argvecho )
gcc -O1 -o bin/helpers/exitsig harness/cmd/helpers/exitsig.c
