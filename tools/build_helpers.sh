#!/bin/bash
# builds the helper executables that make up the workers' private PATH
set -e
cd "$(dirname "$0")/.."
mkdir -p bin/helpers
export GOFLAGS=-mod=mod GOPROXY=off
( cd harness && go build -o ../bin/helpers/argvecho ./cmd/helpers/argvecho )
gcc -O1 -o bin/helpers/exitsig harness/cmd/helpers/exitsig.c
mkdir -p bin/helpers-c22
gcc -O1 -o bin/helpers-c22/c22name harness/cmd/helpers/tagecho.c
cp bin/helpers-c22/c22name bin/helpers-c22/cpuarch
