#!/bin/bash
# Runs the repository's own test suite with the verif guard OFF and compares
# with the stable-pass list in /root/.vp/BASELINE.json.
export GOFLAGS=-mod=mod GOPROXY=off
out=${1:-/tmp/verif-baseline.json}
cd /repo || exit 2
go test -mod=mod -json -vet=off -count=1 -timeout 25m ./... > "$out" 2>/tmp/verif-baseline.err
python3 - "$out" <<'PY'
import json,sys
passed=set(); failed=set()
for line in open(sys.argv[1], errors='replace'):
    try: e=json.loads(line)
    except Exception: continue
    t=e.get('Test')
    if not t: continue
    k=e['Package']+'::'+t
    if e.get('Action')=='pass': passed.add(k)
    elif e.get('Action')=='fail': failed.add(k)
base=json.load(open('/root/.vp/BASELINE.json'))['stable_pass']
missing=[t for t in base if t not in passed]
print(f"baseline stable_pass={len(base)} passed_now={len(passed)} failed_now={len(failed)} missing={len(missing)}")
for m in missing[:40]: print("  MISSING/FAILED:", m)
sys.exit(1 if missing else 0)
PY
