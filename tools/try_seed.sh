#!/bin/bash
# tools/try_seed.sh <patch.diff> <PROP> [<PROP>...]: apply a seeded change to /repo, run the checks, undo it
P=$1; shift
cd /verif
[ -z "$(git -C /repo status --short)" ] || { echo "/repo not clean"; exit 2; }
git -C /repo apply "$P" || { echo "patch does not apply"; exit 2; }
for prop in "$@"; do
  echo "=== $prop with $(basename $(dirname $P)) applied"
  ./check $prop --tier ${TIER:-quick} 2>&1 | grep -E "^(SUMMARY|VIOLATION|KNOWN|BROKEN|  detail)" | cut -c1-400 | head -${LINES_MAX:-8}
done
git -C /repo apply -R "$P"; git -C /repo checkout -- . ; 
[ -z "$(git -C /repo status --short)" ] || { echo "WARNING /repo not clean after revert"; git -C /repo status --short; }
# restore evidence written while the seed was applied
git -C /verif checkout -- evidence 2>/dev/null
