#!/bin/bash
# Run once after a fresh restore, offline: builds the controller, helpers and
# a first worker from files on disk only.
set -e
cd "$(dirname "$0")/.."
export GOFLAGS=-mod=mod GOPROXY=off
unset GOTOOLCHAIN GOSUMDB
mkdir -p bin evidence replays
cp -f /repo/go.sum harness/go.sum.repo
cat harness/go.sum.repo harness/go.sum.extra | sort -u > harness/go.sum
( cd harness && go build -o ../bin/ctl ./cmd/ctl )
./tools/build_helpers.sh
( cd harness && go build -tags verif -o ../bin/mxworker ./cmd/mxworker )
echo setup ok
