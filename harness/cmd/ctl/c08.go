package main

import (
	"encoding/json"
	"fmt"
	"math/rand"
	"strings"

	"verif/proto"
)

var hostileAtoms = []string{
	" ", "  ", "\t", "'", "\"", "`", "$", "@", "~", "*", "?", ";", "|", "&", "&&", "||", "{", "}", "[", "]", "(", ")", "<", ">", "#", "\\",
	"${out INJECTED}", "@{out INJECTED}", "$(x)", "-> out INJECTED", "; out INJECTED", "| out INJECTED", "&& out INJECTED", "$HOME", "~/", "$c08v", "@c08arr", "%[1,2]", "%{a:1}", "{out INJECTED}",
	"\x01", "\x1b[31m", "\x7f", "é", "日本", "😀", "a", "b", "xyz", "0", "-n", "--flag", "=", ",", ":", "!", "%", "^", "\\n", "\\t", "\\\\", "<out>", "<!out>", "<null>", "=>", "?:", "..",
}

func hostileString(r *rand.Rand, maxAtoms int, allowNL bool) string {
	n := r.Intn(maxAtoms + 1)
	var b strings.Builder
	for i := 0; i < n; i++ {
		if allowNL && r.Intn(12) == 0 {
			b.WriteString([]string{"\n", "\r\n", "\r"}[r.Intn(3)])
			continue
		}
		b.WriteString(hostileAtoms[r.Intn(len(hostileAtoms))])
	}
	return noAnsiConst(b.String())
}

func stripOneEOL(s string) string {
	switch {
	case strings.HasSuffix(s, "\r\n"):
		return s[:len(s)-2]
	case strings.HasSuffix(s, "\n"), strings.HasSuffix(s, "\r"):
		return s[:len(s)-1]
	}
	return s
}

type c08Expect struct {
	V    string   `json:"v"`
	Arr  []string `json:"arr"`
	Sep  string   `json:"sep"`
	Meta bool     `json:"meta"`
}

func hasMeta(s string) bool {
	return strings.ContainsAny(s, " \t'\"`$@~*?;|&{}[]()<>#\\\n\r")
}

func init() {
	register(&Property{
		ID:    "C08",
		Level: "exploration",
		Rule: "scalar values and arrays (0-8 single-line elements) over a hostile alphabet (whitespace, quotes, $ @ ~ * ? ; | & {} [] () <> # backslash, &&, ${..}, @{..}, `-> cmd`, redirection tokens, control characters, non-ASCII; scalars also with embedded and trailing CR/LF) are stored through the Variables API (under `c08v` / `c08arr` and, in a third of the cases, under other legal names including ones that start with a digit such as `0x2`, `1_0`, `2nd`) and passed as `f $v`, `f a $v b`, `f @arr`, `f x @arr y` to a murex function (observed through $PARAMS), to `out`, and to an external argv echo; hook `exec` events list every command that actually ran; " +
			"oracle: exactly one argument per scalar (value, or value minus one trailing CR/LF), one per array element verbatim, no command outside the expected set; non-trivial = the value contains a murex metacharacter; distinct by (value, array)",
		Assumptions: []string{"values are valid UTF-8 without NUL (argv cannot carry NUL; $PARAMS is JSON)", "array elements are single-line"},
		Run: func(x *Ctx) {
			pool := x.NewPool(false)
			n := x.Pick(5000, 100000)
			var cases []*proto.Case
			for i := 0; i < n; i++ {
				r := x.Rng("val", i)
				var v string
				switch {
				case i < len(hostileAtoms):
					v = hostileAtoms[i]
				case i < 2*len(hostileAtoms):
					v = "x" + hostileAtoms[i-len(hostileAtoms)] + "y"
				default:
					v = hostileString(r, 8, true)
					if r.Intn(6) == 0 {
						v += []string{"\n", "\r\n", "\n\n", "\r", " \n"}[r.Intn(5)]
					}
				}
				na := 1 + r.Intn(8)
				arr := make([]string, na)
				for j := range arr {
					arr[j] = hostileString(r, 4, false)
				}
				sep := fmt.Sprintf("\x1eSEP-%d-%d\x1e", x.Seed, i)
				aj, _ := json.Marshal(arr)
				// the external argv echo costs a process spawn through murex's exec
				// (~100 ms under load): used for every 8th case in the quick tier and every 4th in the thorough tier
				ext := "argvecho"
				if (x.Quick() && i%8 != 0) || (!x.Quick() && i%4 != 0) {
					ext = "c08pf"
				}
				block := "function c08pf { out $PARAMS }\n" +
					"c08pf $c08v\nout '" + sep + "'\n" +
					"c08pf a $c08v b\nout '" + sep + "'\n" +
					ext + " a $c08v b\nout '" + sep + "'\n" +
					"out $c08v\nout '" + sep + "'\n" +
					"c08pf @c08arr\nout '" + sep + "'\n" +
					"c08pf x @c08arr y\nout '" + sep + "'\n" +
					ext + " x @c08arr y\nout '" + sep + "'\n" +
					// the variable glued to a bareword prefix, with more arguments after it
					"c08pf pre$c08v second third\nout '" + sep + "'\n" +
					// the same statement text executed twice (a function called twice)
					"function c08g { c08pf q.x$1 z }\nc08g $c08v\nc08g $c08v\n"
				// a third of the cases use other legal variable names: short, upper case, leading
				// underscore, and names that start with a digit without being a positional parameter
				vn, an := "c08v", "c08arr"
				if i%3 == 2 {
					rn := x.Rng("names", i)
					vn = []string{"x", "_c08", "C08V", "v1", "0x2", "0b10", "1_0", "0o7", "2nd", "0xff"}[rn.Intn(10)]
					an = []string{"arr", "_a", "ARR", "0x3", "1_1", "0b11", "3rd"}[rn.Intn(7)]
					block = strings.ReplaceAll(strings.ReplaceAll(block, "$c08v", "$"+vn), "@c08arr", "@"+an)
					x.SetAdd("variable_names", vn)
					x.SetAdd("variable_names", an)
				}
				if ext == "argvecho" {
					x.Count("cases_with_external_argv_echo", 1)
				}
				exp, _ := json.Marshal(c08Expect{V: v, Arr: arr, Sep: sep, Meta: hasMeta(v) || hasMeta(strings.Join(arr, ""))})
				cases = append(cases, &proto.Case{ID: fmt.Sprintf("c08-%d", i), Op: "prog", Block: block, Events: true,
					Vars:   []proto.Var{{Name: vn, Type: "str", Value: v}, {Name: an, Type: "json", Value: string(aj)}},
					Expect: exp, TimeoutMs: 30000})
			}
			x.RunAll(pool, cases)
		},
		Check: func(x *Ctx, c *proto.Case, r *proto.Result) {
			if x.Bad(c, r) {
				return
			}
			var e c08Expect
			json.Unmarshal(c.Expect, &e)
			run := r.Runs[0]
			if e.Meta {
				x.Nontrivial(e.V + "\x00" + strings.Join(e.Arr, "\x00"))
			}
			if len(e.V) > 3 && len(e.V) < 40 {
				x.Sample(map[string]any{"scalar": e.V, "array": e.Arr})
			}
			parts := strings.Split(string(run.Stdout), e.Sep+"\n")
			fail := func(form, detail string, got any, want any) {
				x.Viol("args:"+form, fmt.Sprintf("%s with scalar %q / array %q: %s; stderr=%q", form, e.V, e.Arr, detail, trunc(string(run.Stderr), 300)), c, got, want)
			}
			if len(parts) != 9 {
				fail("shape", fmt.Sprintf("expected 9 output sections, got %d: %q", len(parts), trunc(string(run.Stdout), 400)), len(parts), 9)
				return
			}
			scalarOK := func(got string) bool { return got == e.V || got == stripOneEOL(e.V) }
			decode := func(s string) ([]string, bool) {
				var a []string
				if json.Unmarshal([]byte(s), &a) != nil {
					return nil, false
				}
				return a, true
			}
			// 0: f $v
			if a, ok := decode(parts[0]); !ok || len(a) != 1 || !scalarOK(a[0]) {
				fail("fn-scalar", fmt.Sprintf("`f $v` received %q", trunc(parts[0], 300)), parts[0], []string{e.V})
			}
			for i, form := range []string{"fn-scalar-mid", "ext-scalar-mid"} {
				if a, ok := decode(parts[1+i]); !ok || len(a) != 3 || a[0] != "a" || a[2] != "b" || !scalarOK(a[1]) {
					fail(form, fmt.Sprintf("`f a $v b` received %q", trunc(parts[1+i], 300)), parts[1+i], []string{"a", e.V, "b"})
				}
			}
			if got := strings.TrimSuffix(parts[3], "\n"); !scalarOK(got) && parts[3] != e.V {
				fail("out-scalar", fmt.Sprintf("`out $v` printed %q", trunc(parts[3], 300)), parts[3], e.V)
			}
			if a, ok := decode(parts[4]); !ok || !sameList(a, e.Arr) {
				if !(len(e.Arr) == 0 && strings.TrimSpace(parts[4]) == "[]") {
					fail("fn-array", fmt.Sprintf("`f @arr` received %q", trunc(parts[4], 300)), parts[4], e.Arr)
				}
			}
			want := append(append([]string{"x"}, e.Arr...), "y")
			for i, form := range []string{"fn-array-mid", "ext-array-mid"} {
				if a, ok := decode(parts[5+i]); !ok || !sameList(a, want) {
					fail(form, fmt.Sprintf("`f x @arr y` received %q", trunc(parts[5+i], 300)), parts[5+i], want)
				}
			}
			// 7: f pre$v second third
			if a, ok := decode(parts[7]); !ok || len(a) != 3 || a[1] != "second" || a[2] != "third" || !strings.HasPrefix(a[0], "pre") || !scalarOK(strings.TrimPrefix(a[0], "pre")) {
				fail("fn-scalar-glued", fmt.Sprintf("`f pre$v second third` received %q", trunc(parts[7], 300)), parts[7], []string{"pre" + e.V, "second", "third"})
			}
			// 8: a function whose body is `f q.x$1 z`, called twice with $v
			twice := strings.SplitAfter(parts[8], "\n")
			okTwice := len(twice) >= 2
			if okTwice {
				for _, line := range twice[:2] {
					a, ok := decode(strings.TrimSuffix(line, "\n"))
					val := ""
					if ok && len(a) == 2 {
						val = strings.TrimPrefix(a[0], "q.x")
					}
					if !ok || len(a) != 2 || a[1] != "z" || !strings.HasPrefix(a[0], "q.x") || !(scalarOK(val) || val == stripOneEOL(stripOneEOL(e.V))) {
						okTwice = false
					}
				}
			}
			if !okTwice && !strings.ContainsAny(e.V, "\n\r") {
				// (values with line breaks print as several lines here: only checked in the other forms)
				fail("fn-scalar-glued-twice", fmt.Sprintf("two calls of `function g { f q.x$1 z }` with $v received %q", trunc(parts[8], 400)), parts[8], []string{"q.x" + e.V, "z"})
			}
			// commands that actually ran
			allowed := map[string]bool{"c08pf": true, "out": true, "argvecho": true, "function": true, "c08g": true}
			for _, ev := range run.Events {
				if ev.Kind == "exec" && len(ev.Args) >= 2 {
					x.Count("exec_events", 1)
					if !allowed[ev.Args[1]] {
						fail("extra-command", fmt.Sprintf("command %q (%v) was executed", ev.Args[1], ev.Args), ev.Args, "only c08pf/out/argvecho")
					}
				}
			}
		},
	})
}
