package main

import (
	"encoding/json"
	"fmt"
	"path/filepath"
	"strings"

	"verif/proto"
)

type c22Expect struct {
	Name    string   `json:"name"`
	Defs    []string `json:"defs"`
	Inside  string   `json:"inside"`  // expected tag for the call made in the defining module
	Outside string   `json:"outside"` // expected tag for the call from another module
	Shape   string   `json:"shape"`
	NT      bool     `json:"nt"`
}

func c22Has(defs []string, k string) bool {
	for _, d := range defs {
		if d == k {
			return true
		}
	}
	return false
}

// c22Resolve: first present in the order private (caller's module only), alias, function, builtin, external
func c22Resolve(defs []string, inside bool) string {
	for _, k := range []string{"private", "alias", "function", "builtin", "external"} {
		if k == "private" && !inside {
			continue
		}
		if c22Has(defs, k) {
			return k
		}
	}
	return "notfound"
}

func init() {
	register(&Property{
		ID:    "C22",
		Level: "exploration",
		Rule: "for the name of a builtin (`cpuarch`) and a fresh name: every subset of {private in the caller's module, alias, murex function, builtin, external executable in PATH} is defined (exhaustive) and the name is called once from the defining module and once from another module (modules being separate harness forks, and also separate `source { }` blocks of one program); each definition prints its own tag; plus alias-chain shapes (alias to alias, alias to itself with and without a function / external behind it, alias to function, alias to private); " +
			"oracle: first match in the order private > alias > function > builtin > external, an alias is expanded exactly once (its target is resolved without alias lookup), every case finishes; non-trivial = at least two kinds are defined for the name, or an alias chain; distinct by (name, definitions, call site)",
		Assumptions: []string{"the external executables are helper programs placed in a PATH directory used only by this check", "global aliases and functions are removed at the end of every case and workers are recycled every 40 cases"},
		Technique:   "runtime monitoring: exhaustive definition subsets executed by the real resolver, tag printed by the definition that ran compared with the documented precedence",
		Run: func(x *Ctx) {
			pool := x.NewPool(false)
			pool.PathPrefix = filepath.Join(verifRoot, "bin", "helpers-c22") + ":"
			pool.Recycle = 40
			var cases []*proto.Case
			id := 0
			for _, name := range []string{"cpuarch", "c22name", "c22noext"} {
				kinds := []string{"private", "alias", "function", "external"}
				for mask := 0; mask < 1<<len(kinds); mask++ {
					var defs []string
					for i, k := range kinds {
						if mask&(1<<i) != 0 {
							defs = append(defs, k)
						}
					}
					if name == "cpuarch" {
						defs = append(defs, "builtin")
					}
					if name == "c22noext" && c22Has(defs, "external") {
						continue // no helper of that name exists
					}
					// the external helper is always in PATH: "external" is always defined
					if name != "c22noext" && !c22Has(defs, "external") {
						defs = append(defs, "external")
						if mask&(1<<3) == 0 && mask != 0 {
							// same definition set as the mask with the external bit: skip duplicates
							continue
						}
					}
					var b1 strings.Builder
					fmt.Fprintf(&b1, "!alias %s\n!function %s\n", name, name)
					if c22Has(defs, "private") {
						fmt.Fprintf(&b1, "private %s { out private }\n", name)
					}
					if c22Has(defs, "alias") {
						fmt.Fprintf(&b1, "alias %s=out alias\n", name)
					}
					if c22Has(defs, "function") {
						fmt.Fprintf(&b1, "function %s { out function }\n", name)
					}
					fmt.Fprintf(&b1, "out \"\x1eCALL\"\n%s\n", name)
					b2 := fmt.Sprintf("out \"\x1eCALL\"\n%s\nout \"\x1eEND\"\n!alias %s\n!function %s\n", name, name, name)
					id++
					e := c22Expect{Name: name, Defs: defs, Inside: c22Resolve(defs, true), Outside: c22Resolve(defs, false), Shape: "subset", NT: len(defs) >= 2}
					exp, _ := json.Marshal(e)
					cases = append(cases, &proto.Case{ID: fmt.Sprintf("c22-%d", id), Op: "prog", Blocks: []string{b1.String(), b2}, Events: true, Expect: exp, TimeoutMs: 30000})
				}
			}
			// the same precedence through `source { }` blocks: each sourced block is a module of its own, so a
			// private defined in one is found from inside that block and not from a function sourced by another
			for _, name := range []string{"cpuarch", "c22name"} {
				for mask := 0; mask < 4; mask++ {
					defs := []string{"private", "external"}
					if mask&1 != 0 {
						defs = append(defs, "alias")
					}
					if mask&2 != 0 {
						defs = append(defs, "function")
					}
					if name == "cpuarch" {
						defs = append(defs, "builtin")
					}
					var b1 strings.Builder
					fmt.Fprintf(&b1, "!alias %s\n!function %s\n", name, name)
					if c22Has(defs, "alias") {
						fmt.Fprintf(&b1, "alias %s=out alias\n", name)
					}
					if c22Has(defs, "function") {
						fmt.Fprintf(&b1, "function %s { out function }\n", name)
					}
					fmt.Fprintf(&b1, "source { private %s { out private }\nout \"\x1eCALL\"\n%s }\n", name, name)
					b2 := fmt.Sprintf("source { private %s { out private } }\nsource { function c22caller { out \"\x1eCALL\"\n%s } }\nc22caller\nout \"\x1eEND\"\n!function c22caller\n!alias %s\n!function %s\n", name, name, name, name)
					id++
					e := c22Expect{Name: name, Defs: defs, Inside: c22Resolve(defs, true), Outside: c22Resolve(defs, false), Shape: "subset", NT: true}
					e.Defs = append([]string{"via-source-blocks"}, defs...)
					exp, _ := json.Marshal(e)
					cases = append(cases, &proto.Case{ID: fmt.Sprintf("c22-%d", id), Op: "prog", Blocks: []string{b1.String(), b2}, Events: true, Expect: exp, TimeoutMs: 30000})
				}
			}
			// alias chain shapes (fresh name; c22name also exists as an external)
			type shape struct{ name, setup, want, call string }
			shapes := []shape{
				{"alias-to-alias", "alias c22name=c22other\nalias c22other=out second-alias\n", "notfound", ""}, // c22other is resolved without alias lookup: no such function/builtin/external
				{"alias-to-alias-with-function", "alias c22name=c22other\nalias c22other=out second-alias\nfunction c22other { out function-other }\n", "function-other", ""},
				{"alias-to-self-external", "alias c22name=c22name selfarg\n", "external selfarg", ""},
				{"alias-to-self-function", "alias c22name=c22name selfarg\nfunction c22name { out \"function $1\" }\n", "function selfarg", ""},
				{"alias-to-function", "alias c22name=c22fn\nfunction c22fn { out function-target }\n", "function-target", ""},
				{"alias-to-builtin", "alias c22name=out builtin-target\n", "builtin-target", ""},
				{"alias-to-private", "alias c22name=c22priv\nprivate c22priv { out private-target }\n", "private-target", ""},
				{"alias-with-args", "alias c22name=out a b\n", "a b", ""},
				{"two-step-alias-loop", "alias c22name=c22other\nalias c22other=c22name\n", "notfound", ""},
				{"alias-to-false-builtin", "alias c22name=false\n", "false", ""},
				{"function-shadowing-alias-target", "alias c22name=c22t\nalias c22t=out wrong\nfunction c22t { out right }\n", "right", ""},
				{"alias-to-self-both-function-and-external", "alias c22name=c22name\nfunction c22name { out fn }\n", "fn", ""},
				// a function defined again, with the very same text, by another module: the names in it
				// resolve against the privates of the module that defined it last
				{"function-redefined-identically-by-second-module", "source { private c22h { out first }; function c22fnr { c22h } }\nsource { private c22h { out second }; function c22fnr { c22h } }\n", "second", "c22fnr"},
				{"function-redefined-identically-private-only-in-second-module", "source { function c22fnr { c22name } }\nsource { private c22name { out private-second }; function c22fnr { c22name } }\n", "private-second", "c22fnr"},
				{"function-redefined-identically-private-only-in-first-module", "source { private c22name { out private-first }; function c22fnr { c22name } }\nsource { function c22fnr { c22name } }\n", "external", "c22fnr"},
				{"function-redefined-identically-three-modules", "source { private c22h { out first }; function c22fnr { c22h } }\nsource { private c22h { out second }; function c22fnr { c22h } }\nsource { private c22h { out third }; function c22fnr { c22h } }\n", "third", "c22fnr"},
				{"function-with-parameters-redefined-identically", "source { private c22h { out first }; function c22fnr (a: str) { c22h } }\nsource { private c22h { out second }; function c22fnr (a: str) { c22h } }\n", "second", "c22fnr x"},
			}
			for _, s := range shapes {
				id++
				call := s.call
				if call == "" {
					call = "c22name"
				}
				b1 := "!alias c22name\n!alias c22other\n!alias c22t\n!function c22name\n!function c22other\n!function c22fn\n!function c22t\n!function c22fnr\n" + s.setup + "out \"\x1eCALL\"\n" + call + "\n"
				b2 := "out \"\x1eCALL\"\nout skip\nout \"\x1eEND\"\n!alias c22name\n!alias c22other\n!alias c22t\n!function c22name\n!function c22other\n!function c22fn\n!function c22t\n!function c22fnr\n"
				e := c22Expect{Name: "c22name", Defs: []string{s.name}, Inside: s.want, Outside: "skip", Shape: s.name, NT: true}
				exp, _ := json.Marshal(e)
				cases = append(cases, &proto.Case{ID: fmt.Sprintf("c22-%d", id), Op: "prog", Blocks: []string{b1, b2}, Events: true, Expect: exp, TimeoutMs: 30000})
			}
			x.RunAll(pool, cases)
		},
		Check: func(x *Ctx, c *proto.Case, r *proto.Result) {
			if x.Bad(c, r) {
				return
			}
			var e c22Expect
			json.Unmarshal(c.Expect, &e)
			if len(r.Runs) != 2 {
				x.Inconclusive("missing runs")
				return
			}
			key := fmt.Sprintf("%s|%v|%s", e.Name, e.Defs, e.Shape)
			x.Eval(1) // two call sites per case (RunAll counted the case once)
			if e.NT {
				x.Nontrivial(key + "|inside")
				x.Nontrivial(key + "|outside")
			}
			x.Sample(map[string]any{"name": e.Name, "defined_as": e.Defs, "expected_inside_module": e.Inside, "expected_from_other_module": e.Outside})
			tagOf := func(run proto.Run) string {
				s := string(run.Stdout)
				i := strings.Index(s, "\x1eCALL\n")
				if i < 0 {
					return "<no call marker>"
				}
				s = s[i+len("\x1eCALL\n"):]
				if j := strings.Index(s, "\x1eEND"); j >= 0 {
					s = s[:j]
				}
				s = strings.TrimSpace(s)
				if s == "" && strings.Contains(string(run.Stderr), "not found") {
					return "notfound"
				}
				return s
			}
			norm := func(kind, name string) string {
				switch kind {
				case "builtin":
					return "amd64"
				}
				return kind
			}
			for i, want := range []string{e.Inside, e.Outside} {
				site := []string{"inside", "outside"}[i]
				got := tagOf(r.Runs[i])
				w := want
				if e.Shape == "subset" {
					w = norm(want, e.Name)
				}
				x.Count("calls_"+site, 1)
				if got != w {
					x.Viol(fmt.Sprintf("resolve:%s:%s-instead-of-%s", e.Shape, strings.Fields(got + " ?")[0], strings.Fields(w + " ?")[0]), fmt.Sprintf("name %q defined as %v, called from %s its module: ran %q, precedence says %q; stderr=%q", e.Name, e.Defs, site, got, w, trunc(string(r.Runs[i].Stderr), 300)), c, got, w)
				}
			}
		},
	})
}
