package main

import (
	"reflect"
	"encoding/json"
	"fmt"
	"math/rand"
	"strings"

	"verif/proto"
)

var c09Atoms = []string{
	"'", "\"", "\\", "\\\\", "(", ")", "()", "(a)", "[", "]", "{", "}", "#", ";", "|", "\n", " ", "  ", "\t", "é", "日", "😀",
	"a", "b", "n", "s", "t", "r", "x", "q", "0", "$", "~", "&&", "->", "=", "%", "%(", "<", ">", "`", "*", "?", "!", ",", ":", "\\n", "\\s", "\\\"", "\\'", "#!", " # c", "//", "/*",
}

func c09Payload(r *rand.Rand, max int) string {
	n := r.Intn(max + 1)
	var b strings.Builder
	for i := 0; i < n; i++ {
		b.WriteString(c09Atoms[r.Intn(len(c09Atoms))])
	}
	return b.String()
}

func balancedParens(s string) bool {
	d := 0
	for _, c := range s {
		switch c {
		case '(':
			d++
		case ')':
			d--
			if d < 0 {
				return false
			}
		}
	}
	return d == 0
}

// three independent encoders; ok=false when the payload is outside the encoder's domain
func encSingle(p string) (string, bool) {
	if strings.Contains(p, "'") {
		return "", false
	}
	return "'" + p + "'", true
}

func encDouble(r *rand.Rand, p string) (string, bool) {
	var b strings.Builder
	b.WriteByte('"')
	for _, c := range p {
		switch c {
		case '\\', '"', '$', '~':
			b.WriteByte('\\')
			b.WriteRune(c)
		case ' ':
			if r.Intn(3) == 0 {
				b.WriteString("\\s")
			} else {
				b.WriteRune(c)
			}
		case '\t':
			if r.Intn(2) == 0 {
				b.WriteString("\\t")
			} else {
				b.WriteRune(c)
			}
		case '\n':
			switch r.Intn(3) {
			case 0:
				b.WriteString("\\n")
			case 1:
				b.WriteString("\\\n") // \<char> with char = a raw line feed
			default:
				b.WriteRune(c)
			}
		case 's', 't', 'r', 'n':
			b.WriteRune(c) // a backslash in front of these would change their meaning
		default:
			// \<char> is the character itself, whatever the character
			if r.Intn(8) == 0 {
				b.WriteByte('\\')
			}
			b.WriteRune(c)
		}
	}
	b.WriteByte('"')
	return b.String(), true
}

func encBrace(p string) (string, bool) {
	if !balancedParens(p) || strings.ContainsAny(p, "$~") {
		return "", false
	}
	return "%(" + p + ")", true
}

type c09Expect struct {
	Payload string            `json:"payload"`
	Lits    map[string]string `json:"lits"` // encoder -> literal
	Sep     string            `json:"sep"`
	Order   []string          `json:"order"`
	// glued family: three literals in one statement executed three times by a loop; the first is
	// followed by bareword text, the second by a variable
	Glued     bool     `json:"glued,omitempty"`
	GluedSrc  string   `json:"glued_src,omitempty"`
	GluedWant []string `json:"glued_want,omitempty"`
}

func init() {
	register(&Property{
		ID:    "C09",
		Level: "exploration",
		Rule: "payload strings over an alphabet rich in quotes, backslashes, brackets, # ; | newlines, tabs and non-ASCII are encoded by three independent encoders (single quote: payload without '; double quote: \\ \" $ ~ escaped, optional \\s \\t \\n and \\<char>; brace quote %( ): balanced parentheses, no $ or ~) and placed as a statement argument (observed through a function's $PARAMS) and as an expression value (`v = LIT`, variable read back through the API); for every fourth payload also three literals in one statement that a foreach body executes three times, the first glued to bareword text (`'ab'xy`) and the second to a variable (`\"ab\"$v`); oracle: decoded value == payload (every execution of the loop body receives the same values); " +
			"non-trivial = payload contains a quote, backslash, bracket, #, ; | or newline; distinct by (payload, encoder)",
		Assumptions: []string{"payloads contain no upper-case letters, so `{RED}`-style ANSI constants (documented for %( ) and expanded by `out`) cannot occur", "CR is not generated (the property's escapes list \\r but raw CR handling in sources is not part of it)"},
		Run: func(x *Ctx) {
			pool := x.NewPool(false)
			n := x.Pick(6000, 100000)
			var cases []*proto.Case
			for i := 0; i < n; i++ {
				r := x.Rng("payload", i)
				var p string
				if i < len(c09Atoms) {
					p = c09Atoms[i]
				} else {
					p = c09Payload(r, 10)
				}
				e := c09Expect{Payload: p, Lits: map[string]string{}, Sep: fmt.Sprintf("\x1eSEP%d-%d\x1e", x.Seed, i)}
				if l, ok := encSingle(p); ok {
					e.Lits["single"] = l
					e.Order = append(e.Order, "single")
				}
				if l, ok := encDouble(r, p); ok {
					e.Lits["double"] = l
					e.Order = append(e.Order, "double")
				}
				if l, ok := encBrace(p); ok {
					e.Lits["brace"] = l
					e.Order = append(e.Order, "brace")
				}
				var b strings.Builder
				b.WriteString("function c09pf { out $PARAMS }\n")
				var rv []string
				for _, enc := range e.Order {
					fmt.Fprintf(&b, "c09pf %s\nout '%s'\n", e.Lits[enc], e.Sep)
					fmt.Fprintf(&b, "c09_%s = %s\n", enc, e.Lits[enc])
					rv = append(rv, "c09_"+enc)
				}
				exp, _ := json.Marshal(e)
				cases = append(cases, &proto.Case{ID: fmt.Sprintf("c09-%d", i), Op: "prog", Block: b.String(), ReadVars: rv, Expect: exp, TimeoutMs: 30000})
				if i%4 == 0 {
					// the literal is part of a longer parameter (`'ab'cd`, `"ab"$v`) in a statement that a
					// loop executes three times: every execution must see the same three values
					ps := []string{p, c09Payload(r, 6), c09Payload(r, 6)}
					var lits []string
					for _, q := range ps {
						var opts []string
						if l, ok := encSingle(q); ok {
							opts = append(opts, l)
						}
						if l, ok := encDouble(r, q); ok {
							opts = append(opts, l)
						}
						if l, ok := encBrace(q); ok {
							opts = append(opts, l)
						}
						if len(opts) == 0 {
							break
						}
						lits = append(lits, opts[r.Intn(len(opts))])
					}
					if len(lits) == 3 {
						stmt := fmt.Sprintf("c09pf %sxy %s$c09v %s", lits[0], lits[1], lits[2])
						g := c09Expect{Payload: p, Sep: e.Sep, Glued: true, GluedSrc: stmt, GluedWant: []string{ps[0] + "xy", ps[1] + "0123456789", ps[2]}}
						gexp, _ := json.Marshal(g)
						block := "function c09pf { out $PARAMS }\nc09v = '0123456789'\na [1..3] -> foreach c09i {\n" + stmt + "\nout '" + e.Sep + "'\n}\n"
						cases = append(cases, &proto.Case{ID: fmt.Sprintf("c09g-%d", i), Op: "prog", Block: block, Expect: gexp, TimeoutMs: 30000})
					}
				}
			}
			x.RunAll(pool, cases)
		},
		Check: func(x *Ctx, c *proto.Case, r *proto.Result) {
			if x.Bad(c, r) {
				return
			}
			var e c09Expect
			json.Unmarshal(c.Expect, &e)
			run := r.Runs[0]
			nt := strings.ContainsAny(e.Payload, "'\"\\()[]{}#;|\n")
			parts := strings.Split(string(run.Stdout), e.Sep+"\n")
			if e.Glued {
				x.Count("glued statements in a loop", 1)
				if nt {
					x.Nontrivial("glued\x00" + e.GluedSrc)
				}
				for it := 0; it < 3; it++ {
					var a []string
					if it >= len(parts) || json.Unmarshal([]byte(parts[it]), &a) != nil || !reflect.DeepEqual(a, e.GluedWant) {
						got := "<missing>"
						if it < len(parts) {
							got = parts[it]
						}
						x.Viol(fmt.Sprintf("quote:glued:iteration-%d", it+1), fmt.Sprintf("statement `%s` in a foreach body, execution %d of 3, received %q, expected %q; stderr=%q", e.GluedSrc, it+1, trunc(got, 300), e.GluedWant, trunc(string(run.Stderr), 300)), c, got, e.GluedWant)
						return
					}
				}
				return
			}
			if len(e.Payload) > 2 && len(e.Payload) < 30 {
				x.Sample(map[string]any{"payload": e.Payload, "literals": e.Lits})
			}
			x.Eval(len(e.Order) - 1) // one evaluation per literal (RunAll counted the program once)
			for i, enc := range e.Order {
				if nt {
					x.Nontrivial(enc + "\x00" + e.Payload)
				}
				x.Count("literals "+enc, 1)
				single := &proto.Case{ID: c.ID + "-" + enc, Op: "prog", TimeoutMs: 30000, ReadVars: []string{"c09_" + enc},
					Block: fmt.Sprintf("function c09pf { out $PARAMS }\nc09pf %s\nout '%s'\nc09_%s = %s\n", e.Lits[enc], e.Sep, enc, e.Lits[enc])}
				single.Expect, _ = json.Marshal(c09Expect{Payload: e.Payload, Lits: map[string]string{enc: e.Lits[enc]}, Sep: e.Sep, Order: []string{enc}})
				// statement position
				ok := false
				if i < len(parts) {
					var a []string
					if json.Unmarshal([]byte(parts[i]), &a) == nil && len(a) == 1 && a[0] == e.Payload {
						ok = true
					}
					if e.Payload == "" && strings.TrimSpace(parts[i]) == "[]" {
						// an empty literal may yield an empty argument list rendering; the
						// statement requires the argument to evaluate to "", which $PARAMS of
						// one empty string also satisfies; zero arguments is a mismatch
						ok = false
					}
				}
				if !ok {
					got := "<missing>"
					if i < len(parts) {
						got = parts[i]
					}
					x.Viol("quote:"+enc+":statement:"+quoteClass(e.Payload), fmt.Sprintf("statement argument %s (payload %q) was received as %q; stderr=%q", e.Lits[enc], e.Payload, trunc(got, 300), trunc(string(run.Stderr), 400)), single, got, e.Payload)
				}
				// expression position
				v, has := run.Vars["c09_"+enc]
				if !has || v != e.Payload {
					x.Viol("quote:"+enc+":expression:"+quoteClass(e.Payload), fmt.Sprintf("expression `v = %s` (payload %q) stored %q (set=%v, err=%q); stderr=%q", e.Lits[enc], e.Payload, v, has, run.VarErrs["c09_"+enc], trunc(string(run.Stderr), 400)), single, v, e.Payload)
				}
			}
		},
	})
}

// quoteClass names the most specific hostile feature of a payload (for signatures)
func quoteClass(p string) string {
	for _, f := range []struct{ k, name string }{{"\\", "backslash"}, {"\"", "dquote"}, {"'", "squote"}, {"\n", "newline"}, {"#", "hash"}, {"(", "paren"}, {")", "paren"}, {"$", "dollar"}, {"~", "tilde"}, {"{", "brace"}, {"}", "brace"}, {";", "semicolon"}, {"|", "pipe"}} {
		if strings.Contains(p, f.k) {
			return f.name
		}
	}
	if p == "" {
		return "empty"
	}
	return "plain"
}
