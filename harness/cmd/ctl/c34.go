package main

import (
	"encoding/json"
	"fmt"
	"math/rand"
	"strings"

	"verif/proto"
)

type c34Exec struct {
	Name string `json:"name"`
	Kind string `json:"kind"`
}

type c34Line struct {
	Panic    string    `json:"panic,omitempty"`
	Unsafe   bool      `json:"unsafe"`
	LastFlow int       `json:"last_flow"`
	Text     string    `json:"text"`
	ParseErr string    `json:"parse_err,omitempty"`
	Static   []string  `json:"static,omitempty"`
	Assign   []string  `json:"assign,omitempty"`
	Redirect []string  `json:"redirect,omitempty"`
	Ran      bool      `json:"ran"`
	Executed []c34Exec `json:"executed,omitempty"`
	ExecErr  string    `json:"exec_err,omitempty"`
}

type c34Out struct {
	Safe  []string  `json:"safe"`
	Lines []c34Line `json:"lines"`
}

type c34Gen struct {
	r      *rand.Rand
	unsafe int // number of fragments that are not safe to run
}

func (g *c34Gen) word() string {
	w := []string{"x", "abc", "-n", "0", "12", "'q;q'", "\"d|d\"", "(b;b)", "\\;", "\\|", "%(p q)", "'${ c34u }'", "{ c34u }", "'c34u'", "\\$x", "k=v", "a:b", "<err>", "<!out>", "[1]", "é日", "x\\\\", "\\\\", "a\\\\\\;", "y\\\\", "\\\\\\\\", "z\\\\", "\\%(; c34u)", "`'` ; c34u; out `'`", "/# c #/ ; c34u", "\\%(", "/#", "#/", "`", "`a;c34u`"}
	return w[g.r.Intn(len(w))]
}

func (g *c34Gen) param(depth int) string {
	switch k := g.r.Intn(20); {
	case k < 13 || depth <= 0:
		return g.word()
	case k < 15:
		g.unsafe++
		return "${ " + g.command(depth-1, true) + " }"
	case k < 16:
		g.unsafe++
		return "@{ " + g.command(depth-1, true) + " }"
	case k < 17:
		g.unsafe++
		return "\"in ${" + g.command(depth-1, true) + "} q\""
	case k < 18:
		g.unsafe++
		return "$c34v"
	case k < 19:
		g.unsafe++
		return "(p ${ " + g.command(depth-1, true) + " })"
	default:
		g.unsafe++
		return "@c34arr"
	}
}

func (g *c34Gen) params(depth int) string {
	n := g.r.Intn(3)
	var p []string
	for i := 0; i < n; i++ {
		p = append(p, g.param(depth))
	}
	if len(p) == 0 {
		return ""
	}
	sp := " "
	if g.r.Intn(12) == 0 {
		sp = "\t"
	}
	return sp + strings.Join(p, sp)
}

// how a command name ends
func (g *c34Gen) term() string {
	switch g.r.Intn(10) {
	case 0:
		return ":"
	case 1:
		return "\t"
	}
	return " "
}

func (g *c34Gen) block(depth int) string {
	inner := g.line(depth-1, 1+g.r.Intn(2))
	switch g.r.Intn(4) {
	case 0:
		return "{" + inner + "}"
	case 1:
		return "{ " + inner + "}"
	}
	return "{ " + inner + " }"
}

// one command; unsafeOK = may be a command that is not on the safe list
func (g *c34Gen) command(depth int, unsafeOK bool) string {
	if unsafeOK && g.r.Intn(4) == 0 {
		g.unsafe++
		u := []string{"c34u", "c34w", "c34u", "set c34v=x", "global c34g=x", "function c34f { out f }", "alias c34a=out a", "echo", "echo x", "argvecho", "argvecho x", "c34v = 1", "c34v=1", "c34n = 1 + 2", "exec argvecho", "let c34l=1", "c34u()", "> c34.txt", ">> c34.txt", "cd .", "source { c34u }", "c34missing", "'c34u'", "\"c34u\"", "c34\\u", "'c34u' x", "\"c34w\" -n", "'echo' x", "c'34'u", "$count = 5", "$out = x", "$a += 1", "$c34v = 1", "out = x", "count += 1", "$count += 1", "$out.x = 1", "$count", "@a", "$msort++", "a = 5", "$a=1", "$count -= 2", "$format *= 2", "$left ??= 1", "$a.b = 3", "$true := 1"}
		s := u[g.r.Intn(len(u))]
		if !strings.Contains(s, " ") && g.r.Intn(2) == 0 {
			return s + g.params(depth)
		}
		return s
	}
	if depth > 0 && g.r.Intn(5) == 0 {
		switch g.r.Intn(7) {
		case 0:
			return "if " + g.block(depth)
		case 1:
			return "if " + g.block(depth) + " then " + g.block(depth)
		case 2:
			return "if { false } then " + g.block(depth) + " else " + g.block(depth)
		case 3:
			return "try " + g.block(depth)
		case 4:
			return "trypipe " + g.block(depth)
		case 5:
			return "and { true } " + g.block(depth)
		default:
			return "foreach i " + g.block(depth)
		}
	}
	s := []string{"out", "out", "out", "tout json", "a [1..3]", "ja [1..3]", "count", "cast str", "format json", "match", "!match", "regexp m/x/", "left 2", "right 1", "prefix", "suffix", "append", "prepend", "msort", "mtac", "[ 0 ]", "[0]", "[[ /0 ]]", "true", "false", "null", "escape", "cpuarch", "(t x)", "pretty", "struct-keys", "get-type stdin", "!", "'out' x", "\"out\" x", "o\\ut x"}
	c := s[g.r.Intn(len(s))]
	if !strings.Contains(c, " ") && !strings.HasPrefix(c, "(") && !strings.HasPrefix(c, "[") {
		p := g.params(depth)
		if p != "" {
			return c + g.term() + strings.TrimLeft(p, " \t")
		}
		if g.r.Intn(6) == 0 {
			return c + ":"
		}
	}
	return c
}

var c34Seps = []string{" | ", "|", " -> ", "->", "; ", ";", " && ", "&&", " || ", "||", " => ", "=>", "\n", " ? ", " |> c34.txt; ", " >> c34.txt; ", "|>c34.txt;", " ?: ", " ?? ", " ;", " |", " ->", " ~> c34.txt; ", "~>c34.txt;", "->", "=>",
	// `?` is the stderr pipe when either neighbour is a space or a tab, a glob character otherwise
	"?\t", "\t?", "? ", " ?", "\t?\t", "?", "?\t", "\t?"}

func (g *c34Gen) line(depth, n int) string {
	var b strings.Builder
	for i := 0; i < n; i++ {
		if i > 0 {
			sep := c34Seps[g.r.Intn(len(c34Seps))]
			if strings.Contains(sep, "c34.txt") || sep == "\n" || (strings.Contains(sep, "?") && sep != "?" && sep != " ?: " && sep != " ?? ") {
				g.unsafe++
			}
			b.WriteString(sep)
		}
		b.WriteString(g.command(depth, true))
	}
	return b.String()
}

var c34MutChars = []string{"{", "}", "(", ")", "'", "\"", "\\", "|", ";", "&", "$", "@", " ", "\t", ":", "-", ">", "=", "#", "?", "\n", "<", "%", "["}

func c34Input(r *rand.Rand) (string, bool) {
	g := &c34Gen{r: r}
	line := g.line(2, 1+r.Intn(4))
	// the part typed after the last flow token: what is being completed
	last := []string{" | [ ", " -> [ ", " -> format ", "|[", "->[", " | ", " -> ", "; out ", " && out ", " -> alter ", " => ", " | count", "->format "}
	line += last[r.Intn(len(last))]
	if r.Intn(4) == 0 {
		runes := []rune(line)
		for m := 1 + r.Intn(2); m > 0 && len(runes) > 1; m-- {
			i := r.Intn(len(runes))
			switch r.Intn(3) {
			case 0:
				runes = append(runes[:i], runes[i+1:]...)
			case 1:
				tok := []rune(c34MutChars[r.Intn(len(c34MutChars))])
				runes = append(runes[:i], append(tok, runes[i:]...)...)
			default:
				runes[i] = []rune(c34MutChars[r.Intn(len(c34MutChars))])[0]
			}
		}
		line = string(runes)
	}
	return line, g.unsafe > 0
}

// c34Context describes how name appears in text: the character that follows its
// first occurrence at a command position which is not a plain space or colon
func c34Context(text, name string) string {
	runes, n := []rune(text), []rune(name)
	if len(n) == 0 {
		return "empty-name"
	}
	best := ""
	for i := 0; i+len(n) <= len(runes); i++ {
		if string(runes[i:i+len(n)]) != name {
			continue
		}
		if i > 0 {
			p := runes[i-1]
			if p != ' ' && p != '\t' && p != '\n' && p != '{' && p != '|' && p != ';' && p != '>' && p != '&' && p != ':' && p != '?' {
				continue
			}
		}
		next := "end-of-text"
		if i+len(n) < len(runes) {
			next = fmt.Sprintf("%q", string(runes[i+len(n)]))
		}
		depth := strings.Count(string(runes[:i]), "{") - strings.Count(string(runes[:i]), "}")
		where := "top-level"
		if depth > 0 {
			where = "inside-braces"
		}
		c := where + ":followed-by=" + next
		if next != `" "` && next != `":"` {
			return c
		}
		if best == "" {
			best = c
		}
	}
	if best == "" {
		return "not-literally-in-text"
	}
	return best
}

func c34Check(x *Ctx, c *proto.Case, r *proto.Result) {
	var inputs []string
	json.Unmarshal(c.Args, &inputs)
	if (r.TimedOut || r.Crash != "") && len(inputs) > 1 {
		x.Inconclusive("batch watchdog expired or worker died; lines re-run individually")
		pool := x.NewPool(false)
		var singles []*proto.Case
		for i, in := range inputs {
			args, _ := json.Marshal([]string{in})
			singles = append(singles, &proto.Case{ID: fmt.Sprintf("%s-%d", c.ID, i), Op: "c34.lines", Args: args, TimeoutMs: 10000})
		}
		pool.Run(singles, func(sc *proto.Case, sr *proto.Result) { c34Check(x, sc, sr) })
		return
	}
	if r.TimedOut || r.Crash != "" {
		// running safe-list commands hung or killed the worker: not this property's business (C19 looks at that)
		x.Count("lines_whose_execution_hung_or_crashed_left_to_C19", 1)
		x.Inconclusive("a line judged safe did not finish: " + trunc(string(c.Args), 200))
		return
	}
	if x.Bad(c, r) {
		return
	}
	var out c34Out
	if err := json.Unmarshal(r.Out, &out); err != nil || len(out.Lines) != len(inputs) {
		x.Inconclusive("malformed c34 result")
		return
	}
	safe := map[string]bool{}
	for _, s := range out.Safe {
		safe[s] = true
	}
	x.Eval(len(inputs) - 1)
	for i, in := range inputs {
		l := out.Lines[i]
		single := func() *proto.Case {
			args, _ := json.Marshal([]string{in})
			return &proto.Case{ID: fmt.Sprintf("%s-%d", c.ID, i), Op: "c34.lines", Args: args, TimeoutMs: 10000}
		}
		switch {
		case l.Panic != "":
			x.Count("tokenizer_or_parser_panics_left_to_C20", 1)
			continue
		case l.Unsafe:
			x.Count("lines_judged_unsafe", 1)
			continue
		case l.LastFlow <= 0:
			x.Count("lines_without_flow_token_nothing_to_run", 1)
			continue
		}
		x.Count("lines_judged_safe", 1)
		if l.ParseErr != "" {
			x.Count("judged_safe_but_rejected_by_the_real_parser", 1)
		}
		if l.Ran {
			x.Count("judged_safe_and_executed", 1)
		}
		x.Count("commands_executed_under_a_safe_verdict", int64(len(l.Executed)))
		x.Nontrivial(in)
		if i < 2 && len(in) < 120 {
			x.Sample(map[string]any{"line": in, "text_autocomplete_runs": l.Text, "commands_in_parse_tree": l.Static, "commands_executed": l.Executed})
		}
		reported := map[string]bool{}
		report := func(sig, desc string, obs any) {
			if reported[sig] {
				return
			}
			reported[sig] = true
			x.Viol(sig, desc, single(), obs, "Unsafe=true, or only safe-list commands")
		}
		for _, e := range l.Executed {
			if e.Name == "expr" || safe[e.Name] {
				continue
			}
			cls := e.Kind
			report("unsafe-command-executed:"+c34Context(l.Text, e.Name), fmt.Sprintf("line %q: the tokenizer says safe (Unsafe=false, LastFlowToken=%d), autocomplete runs %q and murex executed %s %q, which is not on the safe list", in, l.LastFlow, l.Text, cls, e.Name), l.Executed)
		}
		for _, name := range l.Static {
			if safe[name] || strings.ContainsAny(name, "'\"\\") {
				// the tree keeps quotes and escapes in a command name: those are left to the exec events
				continue
			}
			report("unsafe-command-executed:"+c34Context(l.Text, name), fmt.Sprintf("line %q: the tokenizer says safe (Unsafe=false, LastFlowToken=%d) but the real parser's tree for %q contains the command %q, which is not on the safe list", in, l.LastFlow, l.Text, name), l.Static)
		}
		for _, a := range l.Assign {
			lhs := strings.TrimSpace(a)
			if k := strings.IndexAny(lhs, " =+-"); k > 0 {
				lhs = lhs[:k]
			}
			cls := "other"
			if safe[lhs] {
				cls = "variable-named-like-a-safe-command"
			}
			report("assignment-executed:"+cls, fmt.Sprintf("line %q: the tokenizer says safe but the text %q that autocomplete runs contains the assignment %q", in, l.Text, a), l.Assign)
		}
	}
}

func init() {
	register(&Property{
		ID:    "C34",
		Level: "exploration",
		Rule: "PRNG command lines of 1-4 commands plus the word being completed, built from safe-list commands, commands that are not on the safe list (user functions, set / global / function / alias / echo / exec / let / cd, an external helper, `name = value` assignments, `>` / `>>` file writers), sub-shells ${..} @{..} in parameters, double quotes and ( ), blocks handed to if / try / trypipe / and / foreach, quotes and escapes hiding separators, every separator (| -> => ; && || ? ?: ?? |> >> new line) with and without surrounding spaces, names ended by space, colon, tab or directly by the separator or brace; a quarter get 1-2 random character edits; " +
			"each line goes through parser.Parse(line,0); when it answers Unsafe=false the text line[:LastFlowToken] is (a) parsed by murex's own block parser, recursively through blocks given to block-running commands, and (b) executed exactly the way shell/autocomplete/dynamic.go does, recording the `exec` hook events; oracle: every command in the tree and every command executed is on parser.GetSafeCmds(), and no expression statement assigns; non-trivial = a line judged safe with a non-empty text to run; distinct by line",
		Assumptions: []string{"unsafe commands in the workload are harmless (helper functions, variables, a helper binary on a private PATH, files in the worker's scratch directory)", "expression statements without an assignment are not counted as unsafe although `expr` is not on the safe list"},
		Technique:   "runtime monitoring: tokenizer verdict compared with murex's own parse tree and with exec hook events from really running the text",
		Run: func(x *Ctx) {
			pool := x.NewPool(false)
			total := x.Pick(60000, 3000000)
			per := 200
			var cases []*proto.Case
			for b := 0; b*per < total; b++ {
				r := x.Rng("lines", b)
				inputs := make([]string, per)
				for i := range inputs {
					inputs[i], _ = c34Input(r)
				}
				args, _ := json.Marshal(inputs)
				cases = append(cases, &proto.Case{ID: fmt.Sprintf("c34-%d", b), Op: "c34.lines", Args: args, TimeoutMs: 60000})
			}
			x.RunAll(pool, cases)
		},
		Check: c34Check,
	})
}
