package main

import (
	"encoding/json"
	"fmt"
	"math"
	"math/rand"
	"strconv"
	"strings"

	"verif/proto"
)

// ---- reference evaluator: C precedence, left associative, float64 ----------

type exTok struct {
	k string // num | str | op | ( | )
	s string
	f float64
}

func exLex(s string) ([]exTok, error) {
	var out []exTok
	i := 0
	prevValue := false // previous token was a value or ')'
	for i < len(s) {
		c := s[i]
		switch {
		case c == ' ':
			i++
		case c == '(' || c == ')':
			out = append(out, exTok{k: string(c)})
			prevValue = c == ')'
			i++
		case c == '"' || c == '\'':
			j := i + 1
			for j < len(s) && s[j] != c {
				j++
			}
			out = append(out, exTok{k: "str", s: s[i+1 : j]})
			prevValue = true
			i = j + 1
		case (c >= '0' && c <= '9') || (c == '-' && !prevValue && i+1 < len(s) && s[i+1] >= '0' && s[i+1] <= '9'):
			j := i + 1
			for j < len(s) && ((s[j] >= '0' && s[j] <= '9') || s[j] == '.') {
				j++
			}
			f, err := strconv.ParseFloat(s[i:j], 64)
			if err != nil {
				return nil, err
			}
			out = append(out, exTok{k: "num", f: f, s: s[i:j]})
			prevValue = true
			i = j
		default:
			for _, op := range []string{"<=", ">=", "==", "!=", "<", ">", "+", "-", "*", "/"} {
				if strings.HasPrefix(s[i:], op) {
					out = append(out, exTok{k: "op", s: op})
					i += len(op)
					prevValue = false
					goto next
				}
			}
			return nil, fmt.Errorf("bad char %q", c)
		next:
		}
	}
	return out, nil
}

type exVal struct {
	kind string // num | bool | str
	f    float64
	b    bool
	s    string
}

type exParser struct {
	t []exTok
	p int
}

func (p *exParser) peekOp(ops ...string) string {
	if p.p < len(p.t) && p.t[p.p].k == "op" {
		for _, o := range ops {
			if p.t[p.p].s == o {
				return o
			}
		}
	}
	return ""
}

func (p *exParser) primary() exVal {
	t := p.t[p.p]
	p.p++
	switch t.k {
	case "num":
		return exVal{kind: "num", f: t.f}
	case "str":
		return exVal{kind: "str", s: t.s}
	case "(":
		v := p.cmp()
		p.p++ // ')'
		return v
	}
	panic("reference parser: unexpected token " + t.k + t.s)
}

func (p *exParser) mul() exVal {
	v := p.primary()
	for {
		op := p.peekOp("*", "/")
		if op == "" {
			return v
		}
		p.p++
		r := p.primary()
		if op == "*" {
			v = exVal{kind: "num", f: v.f * r.f}
		} else {
			v = exVal{kind: "num", f: v.f / r.f}
		}
	}
}

func (p *exParser) add() exVal {
	v := p.mul()
	for {
		op := p.peekOp("+", "-")
		if op == "" {
			return v
		}
		p.p++
		r := p.mul()
		if op == "+" {
			v = exVal{kind: "num", f: v.f + r.f}
		} else {
			v = exVal{kind: "num", f: v.f - r.f}
		}
	}
}

func (p *exParser) cmp() exVal {
	v := p.add()
	op := p.peekOp("<", "<=", ">", ">=", "==", "!=")
	if op == "" {
		return v
	}
	p.p++
	r := p.add()
	var c int // -1 0 1, 2 = unordered
	switch v.kind {
	case "num":
		switch {
		case math.IsNaN(v.f) || math.IsNaN(r.f):
			c = 2
		case v.f < r.f:
			c = -1
		case v.f > r.f:
			c = 1
		}
	case "str":
		c = strings.Compare(v.s, r.s)
	case "bool":
		if v.b != r.b {
			c = 1
		}
	}
	var b bool
	switch op {
	case "<":
		b = c == -1
	case "<=":
		b = c == -1 || c == 0
	case ">":
		b = c == 1
	case ">=":
		b = c == 1 || c == 0
	case "==":
		b = c == 0
	case "!=":
		b = c != 0
	}
	return exVal{kind: "bool", b: b}
}

func refEval(s string) (exVal, error) {
	t, err := exLex(s)
	if err != nil {
		return exVal{}, err
	}
	p := &exParser{t: t}
	v := p.cmp()
	if p.p != len(t) {
		return v, fmt.Errorf("trailing tokens")
	}
	return v, nil
}

// ---- generator ----------------------------------------------------------------

func genNum(r *rand.Rand, allowNeg bool) string {
	var s string
	switch r.Intn(12) {
	case 0:
		s = "0"
	case 1:
		s = strconv.Itoa(r.Intn(10))
	case 2, 3, 4:
		s = strconv.Itoa(r.Intn(1000))
	case 5:
		s = strconv.Itoa(r.Intn(1000000000))
	case 6:
		s = fmt.Sprintf("%d.%d", r.Intn(100), r.Intn(1000))
	case 7:
		s = []string{"0.5", "0.25", "0.1", "0.2", "0.3", "1.5", "2.75", "0.001", "100.125", "3.0", "0.0"}[r.Intn(11)]
	case 8:
		s = []string{"9007199254740991", "9007199254740992", "4294967296", "2147483648", "1000000000000", "123456789012", "65536"}[r.Intn(7)]
	case 9:
		s = fmt.Sprintf("0.%06d", r.Intn(1000000))
	default:
		s = strconv.Itoa(1 + r.Intn(20))
	}
	if allowNeg && r.Intn(6) == 0 {
		s = "-" + s
	}
	return s
}

func sp(r *rand.Rand) string { return []string{" ", " ", "  ", " "}[r.Intn(4)] }

// genArith emits an arithmetic expression string; afterOp tells whether a
// negative literal is allowed at the start (true at the start of an expression
// or after '(')
func genArith(r *rand.Rand, depth int, ops *[]string) string {
	n := 1 + r.Intn(4)
	if depth <= 0 {
		n = 1 + r.Intn(2)
	}
	var b strings.Builder
	for i := 0; i < n; i++ {
		if i > 0 {
			op := []string{"+", "-", "*", "/", "+", "-", "*"}[r.Intn(7)]
			*ops = append(*ops, op)
			b.WriteString(sp(r) + op + sp(r))
		}
		if depth > 0 && r.Intn(3) == 0 {
			b.WriteString("(" + genArith(r, depth-1, ops) + ")")
		} else {
			b.WriteString(genNum(r, true))
		}
	}
	return b.String()
}

var cmpOps = []string{"<", "<=", ">", ">=", "==", "!="}

func genStr(r *rand.Rand) string {
	alpha := []string{"a", "b", "B", "z", "A", "0", "9", " ", "é", "ß", "日", "^", "_", "aa", "ab", "-", "10", "9", "2"}
	n := r.Intn(4)
	s := ""
	for i := 0; i < n; i++ {
		s += alpha[r.Intn(len(alpha))]
	}
	return s
}

func genExpr(r *rand.Rand, depth int) (text string, ops []string) {
	switch k := r.Intn(10); {
	case k < 5:
		text = genArith(r, depth, &ops)
	case k < 8:
		op := cmpOps[r.Intn(len(cmpOps))]
		l := genArith(r, depth-1, &ops)
		rr := genArith(r, depth-1, &ops)
		ops = append(ops, op)
		text = l + sp(r) + op + sp(r) + rr
	case k < 9:
		op1, op2 := cmpOps[r.Intn(len(cmpOps))], cmpOps[r.Intn(len(cmpOps))]
		eq := []string{"==", "!="}[r.Intn(2)]
		l := genArith(r, depth-2, &ops) + " " + op1 + " " + genArith(r, depth-2, &ops)
		rr := genArith(r, depth-2, &ops) + " " + op2 + " " + genArith(r, depth-2, &ops)
		ops = append(ops, op1, op2, eq)
		text = "(" + l + ")" + sp(r) + eq + sp(r) + "(" + rr + ")"
	default:
		q := []string{`"`, `'`}[r.Intn(2)]
		op := cmpOps[r.Intn(len(cmpOps))]
		ops = append(ops, "s"+op)
		a, b := genStr(r), genStr(r)
		if r.Intn(4) == 0 {
			b = a
		}
		text = q + a + q + " " + op + " " + q + b + q
	}
	return
}

func exprNontrivial(ops []string) bool {
	prec := map[string]int{"*": 1, "/": 1, "+": 2, "-": 2}
	seen := map[int]bool{}
	nonComm := map[string]int{}
	for _, o := range ops {
		p, ok := prec[o]
		if !ok {
			p = 3
		}
		seen[p] = true
		if o == "-" || o == "/" {
			nonComm[o]++
		}
	}
	return len(seen) >= 2 || nonComm["-"] >= 2 || nonComm["/"] >= 2
}

type exprItem struct {
	Text string   `json:"text"`
	Form string   `json:"form"` // expr | assign
	Kind string   `json:"kind"`
	Val  string   `json:"val"`
	Ops  []string `json:"ops"`
}

func fmtExVal(v exVal) (kind, val string) {
	switch v.kind {
	case "bool":
		return "bool", strconv.FormatBool(v.b)
	case "num":
		return "num", strconv.FormatFloat(v.f, 'g', -1, 64)
	}
	return v.kind, v.s
}

func numEqual(a, b float64) bool {
	if math.IsNaN(a) || math.IsNaN(b) {
		return math.IsNaN(a) && math.IsNaN(b)
	}
	return a == b
}

func init() {
	register(&Property{
		ID:    "C06",
		Level: "exploration",
		Rule: "PRNG expression strings (nesting depth <= 6; integer, decimal, negative and >2^53 literals; + - * / with division by zero; comparisons of arithmetic operands; parenthesised equality of comparisons; quoted string comparisons) evaluated by `expr E` and `v = E`, compared with a precedence-climbing float64 reference evaluator; " +
			"non-trivial = operators of at least two precedence levels or a repeated - or /; distinct by expression text",
		Assumptions: []string{"numeric results are compared as float64 with 0 == -0 and NaN == NaN", "only well-typed expressions are generated (no chained comparisons, no mixed string/number operands)"},
		Run: func(x *Ctx) {
			pool := x.NewPool(false)
			total := x.Pick(20000, 1000000)
			per := 200
			var cases []*proto.Case
			for b := 0; b*per < total; b++ {
				r := x.Rng("expr", b)
				var items []exprItem
				var prog strings.Builder
				for i := 0; i < per; i++ {
					text, ops := genExpr(r, 2+r.Intn(4))
					v, err := refEval(text)
					if err != nil {
						panic("generator produced text the reference cannot parse: " + text + ": " + err.Error())
					}
					kind, val := fmtExVal(v)
					it := exprItem{Text: text, Kind: kind, Val: val, Ops: ops, Form: "expr"}
					if i%2 == 1 {
						it.Form = "assign"
						fmt.Fprintf(&prog, "v%d = %s; out \"$v%d|\"\n", i, text, i)
					} else {
						fmt.Fprintf(&prog, "expr %s; out \"|\"\n", text)
					}
					items = append(items, it)
				}
				exp, _ := json.Marshal(items)
				cases = append(cases, &proto.Case{ID: fmt.Sprintf("c06-%d", b), Op: "prog", Block: prog.String(), Expect: exp, TimeoutMs: 60000})
			}
			x.RunAll(pool, cases)
		},
		Check: func(x *Ctx, c *proto.Case, r *proto.Result) {
			if x.Bad(c, r) {
				return
			}
			var items []exprItem
			json.Unmarshal(c.Expect, &items)
			x.Eval(len(items) - 1)
			lines := strings.Split(string(r.Runs[0].Stdout), "|\n")
			if len(lines) != len(items)+1 {
				x.Viol("batch-shape", fmt.Sprintf("batch of %d expressions produced %d result lines; stderr: %s", len(items), len(lines)-1, trunc(string(r.Runs[0].Stderr), 600)), c, trunc(string(r.Runs[0].Stdout), 2000), nil)
				return
			}
			for i, it := range items {
				got := lines[i]
				if exprNontrivial(it.Ops) {
					x.Nontrivial(it.Text)
				}
				for _, o := range it.Ops {
					x.Count("op "+o, 1)
				}
				if i < 2 {
					x.Sample(map[string]any{"expr": it.Text, "form": it.Form, "expected": it.Val, "murex": got})
				}
				ok := false
				switch it.Kind {
				case "bool":
					ok = got == it.Val
				case "num":
					want, _ := strconv.ParseFloat(it.Val, 64)
					g, err := strconv.ParseFloat(strings.TrimSpace(got), 64)
					ok = err == nil && numEqual(g, want)
				}
				if !ok {
					single := &proto.Case{ID: c.ID + "-" + strconv.Itoa(i), Op: "prog", Block: "expr " + it.Text + "; out \"|\"\n", TimeoutMs: 30000}
					if it.Form == "assign" {
						single.Block = "v = " + it.Text + "; out \"$v|\"\n"
					}
					single.Expect, _ = json.Marshal([]exprItem{it})
					x.Viol("mismatch:"+it.Kind+":"+opClass(it.Ops), fmt.Sprintf("%s form: `%s` gave %q, reference evaluator says %s (%s); stderr %q", it.Form, it.Text, got, it.Val, it.Kind, trunc(string(r.Runs[0].Stderr), 300)), single, got, it.Val)
				}
			}
		},
	})
}

func opClass(ops []string) string {
	m := map[string]bool{}
	for _, o := range ops {
		switch o {
		case "*", "/":
			m["mul"] = true
		case "+", "-":
			m["add"] = true
		default:
			if strings.HasPrefix(o, "s") {
				m["strcmp"] = true
			} else {
				m["cmp"] = true
			}
		}
	}
	var k []string
	for _, c := range []string{"mul", "add", "cmp", "strcmp"} {
		if m[c] {
			k = append(k, c)
		}
	}
	return strings.Join(k, "+")
}
