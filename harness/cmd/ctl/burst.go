package main

import (
	"encoding/json"
	"fmt"

	"verif/proto"
)

type burstOut struct {
	Trials    int      `json:"trials"`
	Anomalies int      `json:"anomalies"`
	Examples  []string `json:"examples,omitempty"`
}

// burstCases builds the tight-race trial cases of a property (worker op <op>)
func burstCases(x *Ctx, op string, cases, trials, width int) []*proto.Case {
	var out []*proto.Case
	for i := 0; i < cases; i++ {
		args, _ := json.Marshal(map[string]int{"trials": trials, "width": width})
		out = append(out, &proto.Case{ID: fmt.Sprintf("%s-%d", op, i), Op: op, Args: args, TimeoutMs: 300000})
	}
	return out
}

// burstCheck reports the anomalies a burst case observed
func burstCheck(x *Ctx, c *proto.Case, r *proto.Result, sig, what string) {
	var o burstOut
	if err := json.Unmarshal(r.Out, &o); err != nil {
		x.Inconclusive("malformed burst result")
		return
	}
	x.Eval(o.Trials - 1)
	x.Count("tight_race_trials", int64(o.Trials))
	x.Nontrivial(c.ID)
	if o.Anomalies > 0 {
		x.Viol(sig, fmt.Sprintf("%s: %d of %d tight-race trials: %v", what, o.Anomalies, o.Trials, o.Examples), c, o.Examples, "none")
	}
}
