package main

import (
	"bytes"
	"encoding/json"
	"fmt"
	"math/rand"
	"strings"

	"verif/proto"
)

type c03Expect struct {
	Family string `json:"family"`
	Src    string `json:"src"`
	Piped  bool   `json:"piped"`
	// Model: expected stdout/exit when a reference model exists for the family
	HasModel  bool   `json:"has_model"`
	Stdout    string `json:"stdout,omitempty"`
	Exit      int    `json:"exit,omitempty"`
	ExitKnown bool   `json:"exit_known,omitempty"`
}

// dataflow family: deterministic builtins moving data through several stages
func genDataflow(r *rand.Rand, id string) string {
	n := 2 + r.Intn(6)
	items := make([]string, n)
	for i := range items {
		items[i] = fmt.Sprintf("%c%d", 'a'+rune(r.Intn(26)), r.Intn(50))
	}
	j, _ := json.Marshal(items)
	templates := []string{
		"tout json '%s' -> format yaml -> format json -> [[/0]]",
		"tout json '%s' -> foreach v { out \"<$v>\" } -> msort -> mtac",
		"tout json '%s' -> format jsonl -> foreach l { out \"l=$l\" }",
		"tout json '%s' -> msort -> [1..2]",
		"tout json '%s' -> foreach v { if { $v == \"" + items[0] + "\" } then { out first } else { out \"o:$v\" } }",
		"tout json '%s' -> format yaml -> cast yaml -> format json -> mtac -> count",
		"tout json '%s' -> prepend zz -> append yy -> foreach v { out $v } -> regexp s/z/Z/",
		"x = %s; out $x -> format yaml; $x -> [[/1]]; switch { case { $x.0 == \"" + items[0] + "\" } then { out sw1 }; default { out sw2 } }",
		"function c03f_" + id + " { <stdin> -> msort -> foreach v { out \"f:$v\" } }; tout json '%s' -> c03f_" + id + " -> mtac",
		"tout json '%s' -> foreach v { out $v } -> cast str -> foreach w { out \"[$w]\" } -> cast str -> foreach u { out \"($u)\" }",
	}
	t := templates[r.Intn(len(templates))]
	doc := string(j)
	if strings.HasPrefix(t, "x = ") {
		doc = "%" + doc
	}
	return fmt.Sprintf(t, doc)
}

// loop-logic family: a loop stage whose body contains commands skipped by && / ||
// (directly, or through a function it calls) and whose output is read concurrently
// by the following stages; returns the program and the model's stdout
func genLoopLogic(r *rand.Rand, id string) (string, string) {
	n := 3 + r.Intn(6)
	items := make([]string, n)
	for i := range items {
		items[i] = fmt.Sprintf("%c%d", 'a'+rune(r.Intn(26)), r.Intn(50))
	}
	j, _ := json.Marshal(items)
	type stmt struct {
		src string
		fmt string // "" = writes nothing
	}
	pool := []stmt{
		{"false && out skipA", ""},
		{"true || out skipB", ""},
		{"false && out skipC || out skipC2", ""}, // once a command of a chain is skipped the rest of the chain is too
		{"true && out \"t$V\"", "t%s"},
		{"false || out \"f$V\"", "f%s"},
		{"out \"v$V\"", "v%s"},
	}
	var body []stmt
	for k := 1 + r.Intn(5); k > 0; k-- {
		body = append(body, pool[r.Intn(len(pool))])
	}
	body = append(body, pool[3+r.Intn(3)])
	var parts []string
	for _, st := range body {
		parts = append(parts, st.src)
	}
	sep := []string{"; ", "\n"}[r.Intn(2)]
	bodySrc := strings.Join(parts, sep)
	var src strings.Builder
	if r.Intn(3) == 0 {
		fn := "c03g_" + id
		src.WriteString("function " + fn + " {\n" + strings.ReplaceAll(bodySrc, "$V", "$1") + "\n}\n")
		bodySrc = fn + " $x"
	} else {
		bodySrc = strings.ReplaceAll(bodySrc, "$V", "$x")
	}
	fmt.Fprintf(&src, "tout json '%s' -> foreach x {\n%s\n}", j, bodySrc)
	var lines []string
	for _, it := range items {
		for _, st := range body {
			if st.fmt != "" {
				lines = append(lines, fmt.Sprintf(st.fmt, it))
			}
		}
	}
	// every stage has its own loop variable: concurrent stages of one pipeline share the
	// function's variable scope, so a shared name would be a race of the program's own making
	for k := 1 + r.Intn(3); k > 0; k-- {
		switch r.Intn(4) {
		case 0:
			fmt.Fprintf(&src, " -> cast str -> foreach y%d { out \"<$y%d>\" }", k, k)
			for i := range lines {
				lines[i] = "<" + lines[i] + ">"
			}
		case 1:
			fmt.Fprintf(&src, " -> cast str -> foreach w%d { true || out skipD; out \"[$w%d]\" }", k, k)
			for i := range lines {
				lines[i] = "[" + lines[i] + "]"
			}
		case 2:
			src.WriteString(" -> cast str -> mtac")
			for a, b := 0, len(lines)-1; a < b; a, b = a+1, b-1 {
				lines[a], lines[b] = lines[b], lines[a]
			}
		default:
			fmt.Fprintf(&src, " | cast str | foreach u%d { false && out skipE; out \"($u%d)\" }", k, k)
			for i := range lines {
				lines[i] = "(" + lines[i] + ")"
			}
		}
	}
	return src.String(), strings.Join(lines, "\n") + "\n"
}

func init() {
	register(&Property{
		ID:    "C03",
		Level: "exploration",
		Rule: "PRNG programs from six families — loop stages whose body contains commands skipped by && / || (directly or through a function) read concurrently by following foreach / cast / mtac stages, command chains in normal / try / trypipe mode, statements whose first pipeline stage writes stderr while the later stages never read their stdin (so only the interpreter orders the stderr lines of consecutive statements), nested foreach/while/if/function control flow, variable-scoping programs, and data-flow pipelines over the deterministic builtins (tout, format, cast, foreach, if, switch, msort, mtac, regexp, count, prepend/append, index, functions reading <stdin>) — each executed once without and R times with hook-driven schedule perturbation (random yields / microsecond sleeps at the check-then-act windows of the streams and of process start / termination / deregistration), every run in a fresh fork; " +
			"oracle: all runs finish and give byte-identical stdout, stderr and exit number (and equal the reference model where the family has one); non-trivial = the program has a pipeline of >= 2 stages or a function call and its runs showed >= 2 distinct interleaving signatures; distinct by program text",
		Assumptions: []string{"programs obey the stream discipline (at most one stderr writer per pipeline, only the last stage writes the block's stdout)", "failing commands are generated only as non-piped leaves or first stages (a failing list builtin may ForceClose its stdin, which legitimately races with the upstream writer)", "Go goroutines are preemptible everywhere, so every injected delay is a legal schedule"},
		Technique:   "runtime monitoring: metamorphic same-program-many-schedules comparison with hook-injected yields",
		Run: func(x *Ctx) {
			pool := x.NewPool(false)
			n := x.Pick(600, 9600)
			R := x.Pick(5, 24)
			var cases []*proto.Case
			for i := 0; i < n; i++ {
				r := x.Rng("prog", i)
				id := fmt.Sprintf("%d_%d", x.Seed, i)
				var e c03Expect
				var block string
				switch i % 6 {
				case 5:
					var want string
					block, want = genLoopLogic(r, id)
					e = c03Expect{Family: "loop-logic", Src: block, Piped: true, HasModel: true, Stdout: want}
				case 4:
					// pipelines whose first stage writes stderr and whose later stages never read
					// their stdin, followed by more stderr writers: the order of the stderr lines
					// depends on each statement waiting for all the stages of the one before it
					var units []Unit
					tag := 0
					for k := 2 + r.Intn(4); k > 0; k-- {
						u := Unit{}
						if len(units) > 0 {
							u.Join = []string{";", "\n"}[r.Intn(2)]
						}
						tag++
						u.Stages = append(u.Stages, Stage{Kind: "err", Tag: fmt.Sprintf("e%d", tag)})
						for j := r.Intn(3); j > 0; j-- {
							tag++
							if r.Intn(2) == 0 {
								u.Stages = append(u.Stages, Stage{Kind: "out", Tag: fmt.Sprintf("o%d", tag)})
							} else {
								u.Stages = append(u.Stages, Stage{Kind: "fn", Tag: fmt.Sprintf("f%d", tag), Exit: 0})
							}
							u.Pipes = append(u.Pipes, []string{"|", "->"}[r.Intn(2)])
						}
						units = append(units, u)
					}
					wrapper := []string{"plain", "function"}[r.Intn(2)]
					c := mkChainCase("c03e_"+id, "normal", wrapper, units)
					var ce chainExpect
					json.Unmarshal(c.Expect, &ce)
					block = c.Block
					e = c03Expect{Family: "stderr-order", Src: ce.Body, Piped: true, HasModel: !ce.Want.Ambiguous, Stdout: ce.Want.Stdout, Exit: ce.Want.Exit, ExitKnown: true}
				case 0:
					units := genChain(r, 8, true)
					mode := []string{"normal", "try", "trypipe"}[r.Intn(3)]
					wrapper := map[string][]string{"normal": {"plain", "function"}, "try": {"try", "fn-try"}, "trypipe": {"trypipe", "fn-trypipe"}}[mode][r.Intn(2)]
					c := mkChainCase("c03w_"+id, mode, wrapper, units)
					var ce chainExpect
					json.Unmarshal(c.Expect, &ce)
					block = c.Block
					_, _, pipes := chainStats(units)
					e = c03Expect{Family: "chain-" + mode, Src: ce.Body, Piped: pipes > 0 || strings.HasPrefix(wrapper, "f"), HasModel: !ce.Want.Ambiguous, Stdout: ce.Want.Stdout, Exit: ce.Want.Exit, ExitKnown: true}
				case 1:
					funcs := genCF(r, "c03_"+id)
					in := &cfInterp{funcs: map[string]*cfFunc{}, kinds: map[string]int{}}
					var src strings.Builder
					for _, f := range funcs {
						in.funcs[f.Name] = f
						src.WriteString("function " + f.Name + " {\n")
						cfSrc(f.Body, "  ", &src)
						src.WriteString("}\n")
					}
					main := funcs[len(funcs)-1]
					src.WriteString(main.Name + "\n")
					sig := in.call(main.Name)
					block = src.String()
					e = c03Expect{Family: "control-flow", Src: block, Piped: true}
					if sig.kind != "overflow" && in.directRun == 0 {
						e.HasModel, e.Stdout = true, in.out.String()
						if sig.kind == "done:return" {
							e.Exit, e.ExitKnown = sig.n, true
						}
					}
				case 2:
					src, ce, ok := genC11(r, "c03_"+id)
					if !ok {
						continue
					}
					block = src
					e = c03Expect{Family: "scoping", Src: src, Piped: strings.Contains(src, "->") || strings.Contains(src, "c11f"), HasModel: true, Stdout: ce.Stdout}
				default:
					block = genDataflow(r, id)
					e = c03Expect{Family: "dataflow", Src: block, Piped: true}
				}
				seeds := []uint64{0}
				for k := 0; k < R; k++ {
					seeds = append(seeds, uint64(r.Int63())|1)
				}
				exp, _ := json.Marshal(e)
				cases = append(cases, &proto.Case{ID: "c03-" + id, Op: "prog", Block: block, YieldSeeds: seeds, Expect: exp, TimeoutMs: 120000})
			}
			x.RunAll(pool, cases)
		},
		Check: func(x *Ctx, c *proto.Case, r *proto.Result) {
			if x.Bad(c, r) {
				return
			}
			var e c03Expect
			json.Unmarshal(c.Expect, &e)
			if len(r.Runs) < 2 {
				x.Inconclusive("fewer than two runs")
				return
			}
			sigs := map[uint64]bool{}
			var hits uint64
			for _, run := range r.Runs[1:] {
				sigs[run.Sig] = true
				hits += run.Hits
			}
			x.Count("runs", int64(len(r.Runs)))
			x.Count("yield_points_hit", int64(hits))
			x.Count("programs "+e.Family, 1)
			for s := range sigs {
				x.SetAdd("interleaving_signatures", fmt.Sprint(s))
			}
			if e.Piped && len(sigs) >= 2 {
				x.Nontrivial(e.Src)
			}
			if len(e.Src) < 300 {
				x.Sample(map[string]any{"family": e.Family, "program": e.Src, "runs": len(r.Runs), "distinct_interleavings": len(sigs), "stdout": string(r.Runs[0].Stdout), "exit": r.Runs[0].Exit})
			}
			base := r.Runs[0]
			for i, run := range r.Runs[1:] {
				if !bytes.Equal(run.Stdout, base.Stdout) || !bytes.Equal(run.Stderr, base.Stderr) || run.Exit != base.Exit || run.Err != base.Err {
					what := "stdout"
					switch {
					case bytes.Equal(run.Stdout, base.Stdout) && bytes.Equal(run.Stderr, base.Stderr):
						what = "exit"
					case bytes.Equal(run.Stdout, base.Stdout):
						what = "stderr"
					}
					x.Viol("schedule-dependent:"+e.Family+":"+what, fmt.Sprintf("%s program\n%s\nrun %d under yield seed %d gave stdout=%q stderr=%q exit=%d; the unperturbed run gave stdout=%q stderr=%q exit=%d",
						e.Family, trunc(e.Src, 1500), i+1, c.YieldSeeds[i+1], trunc(string(run.Stdout), 400), trunc(string(run.Stderr), 300), run.Exit, trunc(string(base.Stdout), 400), trunc(string(base.Stderr), 300), base.Exit), c,
						map[string]any{"stdout": string(run.Stdout), "stderr": string(run.Stderr), "exit": run.Exit}, map[string]any{"stdout": string(base.Stdout), "stderr": string(base.Stderr), "exit": base.Exit})
					return
				}
			}
			if e.HasModel && (string(base.Stdout) != e.Stdout || (e.ExitKnown && base.Exit != e.Exit)) {
				x.Viol("model:"+e.Family, fmt.Sprintf("%s program\n%s\ngave stdout=%q exit=%d on every schedule but the reference model says stdout=%q exit=%d", e.Family, trunc(e.Src, 1500), trunc(string(base.Stdout), 400), base.Exit, trunc(e.Stdout, 400), e.Exit), c, string(base.Stdout), e.Stdout)
			}
		},
	})
}
