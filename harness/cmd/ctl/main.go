// ctl is the controller: generators, reference models, oracles and the evidence
// writer. It never links murex; it builds the worker from /repo's current
// working tree and talks to it over a pipe.
package main

import (
	"encoding/json"
	"flag"
	"fmt"
	"os"
	"os/exec"
	"path/filepath"
	"runtime"
	"sort"
	"strconv"
	"strings"
	"syscall"
	"time"

	"verif/proto"
)

var verifRoot = "/verif"

// Property is one registered monitor
type Property struct {
	ID    string
	Level string // evidence level
	Rule  string // how cases are generated and what counts as non-trivial
	// Run generates and executes the workload, calling the oracle
	Run func(x *Ctx)
	// Check is the oracle for one (case, result); used by Run and by replay
	Check       func(x *Ctx, c *proto.Case, r *proto.Result)
	Assumptions []string
	// Technique names the deciding method (MANIFEST technique field)
	Technique string
}

var registry = map[string]*Property{}

func register(p *Property) { registry[p.ID] = p }

func main() {
	prop := flag.String("prop", "", "property id")
	tier := flag.String("tier", "", "quick|thorough")
	replay := flag.String("replay", "", "replay file")
	workers := flag.Int("workers", 0, "number of workers")
	list := flag.Bool("list", false, "list properties")
	describe := flag.Bool("describe", false, "describe properties as JSON")
	flag.Parse()

	if r := os.Getenv("VERIF_ROOT"); r != "" {
		verifRoot = r
	}

	if *describe {
		d := map[string]any{}
		for id, p := range registry {
			d[id] = map[string]any{"level": p.Level, "rule": p.Rule, "assumptions": p.Assumptions, "technique": p.Technique}
		}
		b, _ := json.MarshalIndent(d, "", " ")
		fmt.Println(string(b))
		return
	}

	if *list {
		ids := []string{}
		for id := range registry {
			ids = append(ids, id)
		}
		sort.Strings(ids)
		fmt.Println(strings.Join(ids, " "))
		return
	}

	p := registry[*prop]
	if p == nil {
		fmt.Fprintf(os.Stderr, "unknown property %q\n", *prop)
		os.Exit(2)
	}

	if *tier == "" {
		*tier = os.Getenv("VERIF_TIER")
	}
	if *tier != "thorough" {
		*tier = "quick"
	}
	seed := uint64(1)
	if s := os.Getenv("VERIF_SEED"); s != "" {
		if v, err := strconv.ParseInt(s, 10, 64); err == nil {
			seed = uint64(v)
		}
	}
	n := *workers
	if n <= 0 {
		n = runtime.NumCPU()
	}

	x := newCtx(p, *tier, seed, n)
	defer x.cleanup()
	start := time.Now()

	if *replay != "" {
		x.replayMode = true
		code := x.doReplay(*replay)
		x.cleanup()
		os.Exit(code)
	}

	p.Run(x)
	x.cleanup()
	os.Exit(x.finish(time.Since(start)))
}

// ---------------------------------------------------------------------------
// builds

func flock(path string) func() {
	f, err := os.OpenFile(path, os.O_CREATE|os.O_RDWR, 0644)
	if err != nil {
		return func() {}
	}
	syscall.Flock(int(f.Fd()), syscall.LOCK_EX)
	return func() { syscall.Flock(int(f.Fd()), syscall.LOCK_UN); f.Close() }
}

func goEnv() []string {
	env := []string{}
	for _, e := range os.Environ() {
		if strings.HasPrefix(e, "GOFLAGS=") || strings.HasPrefix(e, "GOPROXY=") || strings.HasPrefix(e, "GOTOOLCHAIN=") || strings.HasPrefix(e, "GOSUMDB=") {
			continue
		}
		env = append(env, e)
	}
	return append(env, "GOFLAGS=-mod=mod", "GOPROXY=off")
}

// buildGo builds a target from the harness module (which replaces murex by
// /repo's working tree) or from /repo itself
func buildGo(dir, out string, args ...string) error {
	os.MkdirAll(filepath.Dir(out), 0755)
	unlock := flock(out + ".lock")
	defer unlock()
	tmp := fmt.Sprintf("%s.tmp%d", out, os.Getpid())
	a := append([]string{"build", "-o", tmp}, args...)
	cmd := exec.Command("go", a...)
	cmd.Dir = dir
	cmd.Env = goEnv()
	b, err := cmd.CombinedOutput()
	if err != nil {
		os.Remove(tmp)
		return fmt.Errorf("go %s: %v\n%s", strings.Join(a, " "), err, b)
	}
	return os.Rename(tmp, out)
}

func (x *Ctx) workerBin(race bool) string {
	out := filepath.Join(verifRoot, "bin", "mxworker")
	args := []string{"-tags", "verif"}
	if race {
		out += "-race"
		args = append(args, "-race")
	}
	args = append(args, "./cmd/mxworker")
	if err := buildGo(filepath.Join(verifRoot, "harness"), out, args...); err != nil {
		x.broken("cannot build worker: " + err.Error())
	}
	return out
}

func (x *Ctx) murexBin() string {
	out := filepath.Join(verifRoot, "bin", "murex")
	if err := buildGo("/repo", out, "-tags", "verif", "."); err != nil {
		x.broken("cannot build murex: " + err.Error())
	}
	return out
}

// ---------------------------------------------------------------------------
// known findings

type finding struct {
	Status    string `json:"status"` // open | fixed
	Property  string `json:"property"`
	Signature string `json:"signature"`
	What      string `json:"what"`
	Commit    string `json:"commit,omitempty"`
}

func loadFindings() []finding {
	var out []finding
	b, err := os.ReadFile(filepath.Join(verifRoot, "known_findings.jsonl"))
	if err != nil {
		return nil
	}
	for _, line := range strings.Split(string(b), "\n") {
		line = strings.TrimSpace(line)
		if line == "" || strings.HasPrefix(line, "#") {
			continue
		}
		var f finding
		if json.Unmarshal([]byte(line), &f) == nil {
			out = append(out, f)
		}
	}
	return out
}
