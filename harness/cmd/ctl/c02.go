package main

import (
	"encoding/json"
	"fmt"
	"time"

	"github.com/anishathalye/porcupine"

	"verif/proto"
)

type c02Op struct {
	Op  string `json:"op"`
	Arg string `json:"arg,omitempty"`
}

type c02Args struct {
	PreOpen    int       `json:"pre_open"`
	Procs      [][]c02Op `json:"procs"`
	YieldSeed  uint64    `json:"yield_seed"`
	Burst      int       `json:"burst,omitempty"`
	BurstTypes []string  `json:"burst_types,omitempty"`
	BurstKind  string    `json:"burst_kind,omitempty"`
}

type c02Ev struct {
	Proc int    `json:"proc"`
	Op   string `json:"op"`
	Arg  string `json:"arg,omitempty"`
	Out  string `json:"out,omitempty"`
	Call int64  `json:"call"`
	Ret  int64  `json:"ret"`
}

type c02Out struct {
	Events []c02Ev   `json:"events"`
	Trials [][]c02Ev `json:"trials,omitempty"`
	Sig    uint64  `json:"sig"`
	Hits   uint64  `json:"hits"`
}

type c02State struct {
	dt        string
	deps      int
	cancelled bool
}

// the sequential specification of a pipe's data type
var c02Model = porcupine.Model{
	Init: func() interface{} { return c02State{} },
	Step: func(state, input, output interface{}) (bool, interface{}) {
		s := state.(c02State)
		in := input.(c02Ev)
		switch in.Op {
		case "open":
			s.deps++
			return true, s
		case "close":
			s.deps--
			return true, s
		case "forceclose":
			s.cancelled = true
			return true, s
		case "set":
			if in.Arg != "" && in.Arg != "null" && s.dt == "" {
				s.dt = in.Arg
			}
			return true, s
		case "get":
			out := output.(string)
			if s.dt != "" {
				return out == s.dt, s
			}
			// nothing declared: only legal once all writers closed (or the stream was cancelled)
			return (s.deps < 1 || s.cancelled) && out == "*", s
		}
		return false, s
	},
	Equal: func(a, b interface{}) bool { return a.(c02State) == b.(c02State) },
	DescribeOperation: func(input, output interface{}) string {
		in := input.(c02Ev)
		if in.Op == "get" {
			return fmt.Sprintf("get() -> %q", output)
		}
		if in.Op == "set" {
			return fmt.Sprintf("set(%q)", in.Arg)
		}
		return in.Op
	},
}

func init() {
	register(&Property{
		ID:    "C02",
		Level: "exploration",
		Rule: "concurrent API histories of <= 14 operations on one real stream: 1-3 writer goroutines (Open ... SetDataType(name) ... Close, some opened before the start as createProcess does) racing with 1-3 reader goroutines (GetDataType, ForceClose); type names from \"\", null, *, json, str and random identifiers; hook yields inside the GetDataType poll loop and SetDataType; plus tight-race bursts (250 trials per case: 2-3 writers released together from a spin barrier, each declaring a different type and closing, against a reader polling GetDataType; and 60 trials per case in which the type is declared, the stream force closed and a reader polls GetDataType 20000 times while six goroutines keep calling Stats / Write / Read); every call recorded with logical call/return stamps at the API boundary; " +
			"oracle: porcupine linearizability check against the sequential model (first non-empty non-null declaration wins and never changes; Get returns it, or * once all writers closed / the stream was cancelled without a declaration; a Get may not return while undeclared with writers open); non-trivial = >= 2 competing declarations or a Get overlapping a Set or the last Close; distinct by history description",
		Assumptions: []string{"writers never call GetDataType between their own Open and Close (that would wait for itself)", "a porcupine timeout is reported as inconclusive"},
		Technique:   "runtime monitoring: recorded concurrent history checked for linearizability (porcupine v1.3.0) against a sequential model, hook-injected yields",
		Run: func(x *Ctx) {
			pool := x.NewPool(false)
			n := x.Pick(3000, 100000)
			var cases []*proto.Case
			names := []string{"", "null", "*", "json", "str", "x1", "x2", "yaml"}
			for i := 0; i < n; i++ {
				r := x.Rng("hist", i)
				a := c02Args{YieldSeed: uint64(r.Int63()) | 1}
				nw, nr := 1+r.Intn(3), 1+r.Intn(3)
				budget := 14
				for w := 0; w < nw; w++ {
					var ops []c02Op
					pre := r.Intn(2) == 0
					if pre {
						a.PreOpen++
					} else {
						ops = append(ops, c02Op{Op: "open"})
					}
					for k := r.Intn(3); k > 0 && budget > 0; k-- {
						ops = append(ops, c02Op{Op: "set", Arg: names[r.Intn(len(names))]})
						budget--
					}
					ops = append(ops, c02Op{Op: "close"})
					if r.Intn(6) == 0 {
						// a late declaration after closing (still a legal call)
						ops = append(ops, c02Op{Op: "set", Arg: names[r.Intn(len(names))]})
					}
					a.Procs = append(a.Procs, ops)
				}
				for rd := 0; rd < nr; rd++ {
					var ops []c02Op
					for k := 1 + r.Intn(3); k > 0 && budget > 0; k-- {
						if r.Intn(12) == 0 {
							ops = append(ops, c02Op{Op: "forceclose"})
						} else {
							ops = append(ops, c02Op{Op: "get"})
						}
						budget--
					}
					a.Procs = append(a.Procs, ops)
				}
				args, _ := json.Marshal(a)
				cases = append(cases, &proto.Case{ID: fmt.Sprintf("c02-%d", i), Op: "c02.hist", Args: args, TimeoutMs: 30000})
			}
			// tight-race bursts: writers released together from a spin barrier
			nb := x.Pick(48, 2000)
			for i := 0; i < nb; i++ {
				r := x.Rng("burst", i)
				types := [][]string{{"json", "csv"}, {"str", "yaml", "json"}, {"", "xml", "toml"}, {"null", "a", "b"}, {"x", "y"}}[r.Intn(5)]
				args, _ := json.Marshal(c02Args{Burst: 250, BurstTypes: types})
				cases = append(cases, &proto.Case{ID: fmt.Sprintf("c02-burst-%d", i), Op: "c02.hist", Args: args, TimeoutMs: 120000})
			}
			// a declared type read back after ForceClose while other goroutines use the stream
			nf := x.Pick(16, 400)
			for i := 0; i < nf; i++ {
				args, _ := json.Marshal(c02Args{Burst: 60, BurstKind: "forceclosed", BurstTypes: []string{"json", "str", "csv", "x"}})
				cases = append(cases, &proto.Case{ID: fmt.Sprintf("c02-forceclosed-%d", i), Op: "c02.hist", Args: args, TimeoutMs: 120000})
			}
			x.RunAll(pool, cases)
		},
		Check: func(x *Ctx, c *proto.Case, r *proto.Result) {
			if x.Bad(c, r) {
				return
			}
			var o c02Out
			if err := json.Unmarshal(r.Out, &o); err != nil {
				x.Inconclusive("malformed c02 result")
				return
			}
			if len(o.Trials) > 0 {
				x.Eval(len(o.Trials) - 1)
				for ti, evs := range o.Trials {
					x.Count("burst_trials", 1)
					x.Count("operations", int64(len(evs)))
					var ops []porcupine.Operation
					for _, e := range evs {
						ops = append(ops, porcupine.Operation{ClientId: e.Proc + 1, Input: e, Call: e.Call, Output: e.Out, Return: e.Ret})
					}
					if ti < 40 {
						x.Nontrivial(fmt.Sprintf("%s-%d-%d", c.ID, ti, len(evs)))
					}
					switch porcupine.CheckOperationsTimeout(c02Model, ops, 20*time.Second) {
					case porcupine.Unknown:
						x.Inconclusive("porcupine timed out")
					case porcupine.Illegal:
						types := map[string]bool{}
						for _, e := range evs {
							if e.Op == "get" {
								types[e.Out] = true
							}
						}
						sig := "not-linearizable"
						if len(types) > 1 {
							sig = "type-changed"
						}
						x.Viol("datatype:"+sig, fmt.Sprintf("tight-race trial %d is not linearizable against the set-once model: %s", ti, mustJSON(evs)), c, evs, "a linearization")
						return
					}
				}
				return
			}
			var ops []porcupine.Operation
			sets, overlap := 0, false
			var lastClose int64
			for _, e := range o.Events {
				if e.Op == "set" && e.Arg != "" && e.Arg != "null" {
					sets++
				}
				if e.Op == "close" && e.Ret > lastClose {
					lastClose = e.Ret
				}
			}
			for _, e := range o.Events {
				ops = append(ops, porcupine.Operation{ClientId: e.Proc + 1, Input: e, Call: e.Call, Output: e.Out, Return: e.Ret})
				if e.Op == "get" {
					for _, f := range o.Events {
						if (f.Op == "set" || f.Op == "close") && f.Call < e.Ret && f.Ret > e.Call {
							overlap = true
						}
					}
				}
			}
			if sets >= 2 || overlap {
				x.Nontrivial(string(c.Args) + fmt.Sprint(o.Sig))
			}
			x.Count("operations", int64(len(o.Events)))
			x.Count("yield_points_hit", int64(o.Hits))
			x.SetAdd("interleaving_signatures", fmt.Sprint(o.Sig))
			if len(o.Events) < 9 {
				x.Sample(map[string]any{"history": o.Events})
			}
			res, info := porcupine.CheckOperationsVerbose(c02Model, ops, 20*time.Second)
			switch res {
			case porcupine.Ok:
				x.Count("histories_linearizable", 1)
			case porcupine.Unknown:
				x.Inconclusive("porcupine timed out")
			case porcupine.Illegal:
				_ = info
				// classify: which Get is wrong
				sig := "not-linearizable"
				types := map[string]bool{}
				for _, e := range o.Events {
					if e.Op == "get" && e.Out != "*" {
						types[e.Out] = true
					}
				}
				if len(types) > 1 {
					sig = "type-changed"
				}
				for _, e := range o.Events {
					if e.Op == "get" && e.Out == "" {
						sig = "empty-type-returned"
					}
				}
				x.Viol("datatype:"+sig, fmt.Sprintf("history is not linearizable against the set-once model: %s", mustJSON(o.Events)), c, o.Events, "a linearization")
			}
		},
	})
}
