package main

import (
	"math"
	"encoding/json"
	"fmt"
	"math/rand"
	"reflect"
	"strconv"
	"strings"

	"verif/proto"
)

type c24Item struct {
	Params              []string          `json:"params"`
	AllowAdditional     bool              `json:"allow_additional"`
	IgnoreInvalidFlags  bool              `json:"ignore_invalid"`
	StrictFlagPlacement bool              `json:"strict"`
	Flags               map[string]string `json:"flags"`
}

type c24Res struct {
	Flags      map[string]any `json:"flags"`
	Additional []string       `json:"additional"`
	Err        string         `json:"err,omitempty"`
	Panic      string         `json:"panic,omitempty"`
}

// c24Model: the reference parser of the statement. ok=false -> a clean error is expected
func c24Model(it c24Item) (flags map[string]any, additional []string, ok bool) {
	flags = map[string]any{}
	additional = []string{}
	resolve := func(name string) (string, string, bool) {
		for i := 0; i < 10; i++ {
			t, has := it.Flags[name]
			if !has {
				return "", "", false
			}
			if strings.HasPrefix(t, "-") {
				name = t
				continue
			}
			return name, t, true
		}
		return "", "", false
	}
	ended := false
	for i := 0; i < len(it.Params); i++ {
		a := it.Params[i]
		if ended {
			additional = append(additional, a)
			continue
		}
		if a == "--" && it.AllowAdditional {
			ended = true
			continue
		}
		if strings.HasPrefix(a, "-") {
			target, typ, declared := resolve(a)
			if !declared {
				if _, err := strconv.ParseFloat(a, 64); err == nil && it.AllowAdditional {
					// a negative number that is not a flag: never generated outside value position
				}
				return nil, nil, false
			}
			if typ == "bool" {
				flags[target] = true
				continue
			}
			if i+1 >= len(it.Params) {
				return nil, nil, false // flag without value
			}
			i++
			v := it.Params[i]
			if v == "--" && it.AllowAdditional {
				// `--` ends the flags: the flag before it has no value
				return nil, nil, false
			}
			switch typ {
			case "int":
				// any numeric spelling of a whole number is that integer (`1e3`, `2.0`, `+7`);
				// fractions are not generated: the statement does not say whether they round or fail
				f, err := strconv.ParseFloat(v, 64)
				if err != nil || f != math.Trunc(f) || math.Abs(f) > 1<<53 {
					return nil, nil, false
				}
				flags[target] = f
			case "num":
				f, err := strconv.ParseFloat(v, 64)
				if err != nil {
					return nil, nil, false
				}
				flags[target] = f
			default:
				flags[target] = v
			}
			continue
		}
		if !it.AllowAdditional {
			return nil, nil, false
		}
		additional = append(additional, a)
		if it.StrictFlagPlacement {
			ended = true
		}
	}
	return flags, additional, true
}

func c24Gen(r *rand.Rand) c24Item {
	it := c24Item{Flags: map[string]string{}, AllowAdditional: r.Intn(3) != 0, StrictFlagPlacement: r.Intn(4) == 0}
	types := []string{"str", "int", "num", "bool"}
	var real []string
	for i := 1 + r.Intn(4); i > 0; i-- {
		name := fmt.Sprintf("--f%d", len(real))
		it.Flags[name] = types[r.Intn(4)]
		real = append(real, name)
	}
	// acyclic alias chains (<= 3 hops)
	var aliases []string
	for i := r.Intn(3); i > 0; i-- {
		name := fmt.Sprintf("-a%d", len(aliases))
		target := real[r.Intn(len(real))]
		if len(aliases) > 0 && r.Intn(2) == 0 {
			target = aliases[r.Intn(len(aliases))]
		}
		it.Flags[name] = target
		aliases = append(aliases, name)
	}
	all := append(append([]string{}, real...), aliases...)
	if r.Intn(15) == 0 {
		// aliases that form a loop: using one must be reported as an error, not followed for ever
		if r.Intn(2) == 0 {
			it.Flags["-c0"] = "-c0"
		} else {
			it.Flags["-c0"], it.Flags["-c1"] = "-c1", "-c0"
		}
		all = append(all, "-c0", "-c0")
	}
	value := func(typ string, bad bool) string {
		switch typ {
		case "int":
			if bad {
				return []string{"abc", "1x", "one"}[r.Intn(3)]
			}
			if r.Intn(4) == 0 {
				return []string{"1e3", "2.0", "1E2", "10.", "-4.0", "+7", "0e0", "-0", "12e-1e"[:3], "007"}[r.Intn(10)]
			}
			return strconv.Itoa(r.Intn(200) - 100)
		case "num":
			if bad {
				return []string{"abc", "1.2.3"}[r.Intn(2)]
			}
			return []string{"1.5", "-2.25", "10", "0.125", "-7"}[r.Intn(5)]
		}
		return []string{"hello", "a b", "x=1", "v", "path/to", "42"}[r.Intn(6)]
	}
	typeOf := func(name string) string {
		for i := 0; i < 10; i++ {
			t := it.Flags[name]
			if strings.HasPrefix(t, "-") {
				name = t
				continue
			}
			return t
		}
		return ""
	}
	n := r.Intn(8)
	for i := 0; i < n; i++ {
		switch k := r.Intn(20); {
		case k < 11:
			f := all[r.Intn(len(all))]
			it.Params = append(it.Params, f)
			if t := typeOf(f); t != "bool" {
				if r.Intn(12) == 0 && i == n-1 {
					continue // value missing at the very end
				}
				if r.Intn(10) == 0 && it.AllowAdditional {
					// value missing because the flags are ended right after the flag
					// (only where `--` ends the flags: otherwise it is just the value)
					it.Params = append(it.Params, "--")
					for j := r.Intn(3); j > 0; j-- {
						it.Params = append(it.Params, []string{"tail", "7", "--f0"}[r.Intn(3)])
					}
					continue
				}
				it.Params = append(it.Params, value(t, r.Intn(12) == 0))
			}
		case k < 16:
			it.Params = append(it.Params, []string{"plain", "arg2", "file.txt", "x y", "0", "7"}[r.Intn(6)])
		case k < 17:
			it.Params = append(it.Params, "--")
			// after `--` anything goes, including things that look like flags
			for j := r.Intn(3); j > 0; j-- {
				it.Params = append(it.Params, []string{"--f0", "-zz", "tail", "--"}[r.Intn(4)])
			}
		case k < 19:
			it.Params = append(it.Params, []string{"--undeclared", "-u", "--f99"}[r.Intn(3)])
		default:
			it.Params = append(it.Params, "last")
		}
	}
	if it.Params == nil {
		it.Params = []string{}
	}
	return it
}

type c24ArgsExpect struct {
	Item c24Item `json:"item"`
}

func c24Compare(flags map[string]any, add []string, wantF map[string]any, wantA []string) bool {
	if flags == nil {
		flags = map[string]any{}
	}
	if add == nil {
		add = []string{}
	}
	return reflect.DeepEqual(flags, wantF) && reflect.DeepEqual(add, wantA)
}

func init() {
	register(&Property{
		ID:    "C24",
		Level: "exploration",
		Rule: "PRNG flag tables (1-4 flags of type str/int/num/bool plus up to 2 acyclic alias chains) and argument lists of 0-8 items drawn from declared flags and aliases (with convertible and unconvertible values), undeclared flags, plain values, `--` followed by flag-looking text, with AllowAdditional / StrictFlagPlacement variations; run through parameters.ParseFlags (API, in the worker) and through the `args` builtin inside a function; " +
			"oracle: an independent reference parser — declared flags reported under their target name with the value converted to the declared type, aliases followed, non-flag arguments in `additional` when allowed, everything after `--` additional, otherwise a clean error (non-nil error / Error field set, no panic, `args` itself keeps running); non-trivial = the list uses an alias, `--`, or mixes flags with additional arguments; distinct by (table, arguments)",
		Assumptions: []string{"inputs on which the statement is silent are not generated: alias cycles, a value-taking flag immediately followed by another declared flag, values that start with `-` but are not numbers", "the exit number of `args` after a parse error is not asserted"},
		Run: func(x *Ctx) {
			pool := x.NewPool(false)
			var cases []*proto.Case
			total := x.Pick(50000, 5000000)
			per := 2500
			for b := 0; b*per < total; b++ {
				r := x.Rng("api", b)
				items := make([]c24Item, per)
				for i := range items {
					items[i] = c24Gen(r)
				}
				args, _ := json.Marshal(items)
				cases = append(cases, &proto.Case{ID: fmt.Sprintf("c24-api-%d", b), Op: "c24.parse", Args: args, TimeoutMs: 120000})
			}
			na := x.Pick(1500, 50000)
			for i := 0; i < na; i++ {
				r := x.Rng("args", i)
				it := c24Gen(r)
				spec, _ := json.Marshal(map[string]any{"AllowAdditional": it.AllowAdditional, "StrictFlagPlacement": it.StrictFlagPlacement, "Flags": it.Flags})
				fname := fmt.Sprintf("c24f_%d_%d", x.Seed, i)
				var call strings.Builder
				call.WriteString(fname)
				for _, p := range it.Params {
					call.WriteString(" '" + p + "'")
				}
				block := fmt.Sprintf("function %s { args c24a '%s'; out $c24a; out ARGS-RETURNED }\n%s\n!function %s\n", fname, string(spec), call.String(), fname)
				exp, _ := json.Marshal(c24ArgsExpect{Item: it})
				cases = append(cases, &proto.Case{ID: fmt.Sprintf("c24-args-%d", i), Op: "prog", Block: block, Expect: exp, TimeoutMs: 30000})
			}
			x.RunAll(pool, cases)
		},
		Check: func(x *Ctx, c *proto.Case, r *proto.Result) {
			if x.Bad(c, r) {
				return
			}
			nontrivial := func(it c24Item) bool {
				hasAlias, hasDD, hasFlag, hasPlain := false, false, false, false
				for _, p := range it.Params {
					switch {
					case p == "--":
						hasDD = true
					case strings.HasPrefix(p, "-a"):
						hasAlias = true
					case strings.HasPrefix(p, "--f"):
						hasFlag = true
					case !strings.HasPrefix(p, "-"):
						hasPlain = true
					}
				}
				return hasAlias || hasDD || (hasFlag && hasPlain)
			}
			if c.Op == "c24.parse" {
				var items []c24Item
				var out []c24Res
				json.Unmarshal(c.Args, &items)
				if json.Unmarshal(r.Out, &out) != nil || len(out) != len(items) {
					x.Inconclusive("malformed c24 result")
					return
				}
				x.Eval(len(items) - 1)
				for i, it := range items {
					key, _ := json.Marshal(it)
					if nontrivial(it) {
						x.Nontrivial(string(key))
					}
					wf, wa, ok := c24Model(it)
					got := out[i]
					if i < 2 {
						x.Sample(map[string]any{"table": it.Flags, "arguments": it.Params, "allow_additional": it.AllowAdditional, "expected_flags": wf, "expected_additional": wa, "expected_ok": ok})
					}
					switch {
					case got.Panic != "":
						x.Viol("flags:api:panic", fmt.Sprintf("ParseFlags panicked on %s: %s", key, got.Panic), nil, got, "no panic")
					case !ok && got.Err == "":
						x.Count("api_expected_errors", 1)
						x.Viol("flags:api:accepted-invalid", fmt.Sprintf("ParseFlags accepted %s as flags=%s additional=%q; the reference parser expects an error", key, mustJSON(got.Flags), got.Additional), nil, got, "error")
					case !ok:
						x.Count("api_expected_errors", 1)
					case got.Err != "":
						x.Viol("flags:api:rejected-valid", fmt.Sprintf("ParseFlags rejected %s: %s; the reference parser gives flags=%s additional=%q", key, got.Err, mustJSON(wf), wa), nil, got, wf)
					case !c24Compare(got.Flags, got.Additional, wf, wa):
						x.Viol("flags:api:wrong-result", fmt.Sprintf("ParseFlags on %s gave flags=%s additional=%q; the reference parser gives flags=%s additional=%q", key, mustJSON(got.Flags), got.Additional, mustJSON(wf), wa), nil, got, wf)
					default:
						x.Count("api_agreeing_results", 1)
					}
				}
				return
			}
			var e c24ArgsExpect
			json.Unmarshal(c.Expect, &e)
			run := r.Runs[0]
			key, _ := json.Marshal(e.Item)
			if nontrivial(e.Item) {
				x.Nontrivial("args" + string(key))
			}
			wf, wa, ok := c24Model(e.Item)
			stdout := string(run.Stdout)
			if m := hasCrashText(string(run.Stderr) + r.OSErr); m != "" || !strings.Contains(stdout, "ARGS-RETURNED") {
				x.Viol("flags:args:crash-or-no-return", fmt.Sprintf("`args` with %s did not return to its caller (marker missing=%v, crash text %q); stderr=%q oserr=%q", key, !strings.Contains(stdout, "ARGS-RETURNED"), m, trunc(string(run.Stderr), 300), trunc(r.OSErr, 300)), c, stdout, "args returns")
				return
			}
			var obj struct {
				Self       string
				Flags      map[string]any
				Additional []string
				Error      string
			}
			js := strings.TrimSuffix(stdout, "ARGS-RETURNED\n")
			if err := json.Unmarshal([]byte(js), &obj); err != nil {
				x.Viol("flags:args:bad-json", fmt.Sprintf("`args` with %s wrote %q", key, trunc(js, 300)), c, js, "JSON")
				return
			}
			switch {
			case !ok && obj.Error == "":
				x.Viol("flags:args:accepted-invalid", fmt.Sprintf("`args` with %s reported no error: %s", key, trunc(js, 300)), c, js, "Error set")
			case !ok:
				x.Count("args_expected_errors", 1)
			case obj.Error != "":
				x.Viol("flags:args:rejected-valid", fmt.Sprintf("`args` with %s reported %q; reference parser gives flags=%s additional=%q", key, obj.Error, mustJSON(wf), wa), c, js, wf)
			case !c24Compare(obj.Flags, obj.Additional, wf, wa):
				x.Viol("flags:args:wrong-result", fmt.Sprintf("`args` with %s gave %s; reference parser gives flags=%s additional=%q", key, trunc(js, 300), mustJSON(wf), wa), c, js, wf)
			default:
				x.Count("args_agreeing_results", 1)
			}
		},
	})
}
