package main

import (
	"encoding/json"
	"fmt"
	"math/rand"
	"strings"

	"verif/proto"
)

type c28Args struct {
	Programs []string `json:"programs"`
	Runners  int      `json:"runners"`
	Seed     uint64   `json:"seed"`
}

type c28Out struct {
	Registered   int        `json:"registered"`
	Deregistered int        `json:"deregistered"`
	DupIDs       []string   `json:"dup_ids,omitempty"`
	LiveDups     []string   `json:"live_dups,omitempty"`
	NeverDereg   []string   `json:"never_dereg,omitempty"`
	Left         [][]string `json:"left"`
	Exits        []int      `json:"exits"`
	Errs         []string   `json:"errs"`
	Samples      int64      `json:"samples"`
	MaxLive      int        `json:"max_live"`
	Sig          string     `json:"sig"`
	Truncated    bool       `json:"truncated"`
}

func c28Program(r *rand.Rand, id string) string {
	if r.Intn(10) == 0 {
		// blocks that are never entered: loops with zero iterations, conditions that are false,
		// a switch without a matching case - whatever was prepared for the body must be released
		z := []string{
			"while { false } { out never }\nout after\n",
			"c28z = 5\nwhile { $c28z < 1 } { out never }\nout after\n",
			"tout json ([]) -> foreach i { out never }\nout after\n",
			"a [1..3] -> match nomatch -> foreach i { out never }\nout after\n",
			"if { false } then { out never }\nout after\n",
			"if { false } then { out never } else { out else }\nout after\n",
			"!if { true } then { out never }\nout after\n",
			"switch { case { false } then { out never } }\nout after\n",
			"switch { case { false } then { out never }; default { out dflt } }\nout after\n",
			"try { while { false } { out never } }\nout after\n",
			"function c28z_" + id + " { while { false } { out never }; if { false } then { out never } }\nc28z_" + id + "\nc28z_" + id + "\n!function c28z_" + id + "\n",
			"a [1..3] -> foreach i { while { false } { out never } }\nout after\n",
			"false && while { true } { out never }\nout after\n",
			"bg { while { false } { out never } }\nout after\n",
		}
		return z[r.Intn(len(z))]
	}
	if r.Intn(8) == 0 {
		// bodies that are accepted when the program is parsed but fail when they are reached
		// (dangling pipe / operator), and calls whose typed parameters cannot be converted:
		// the forks made for them never run their block
		tail := []string{"|", "->", "&&", "||", "; | out b"}[r.Intn(5)]
		switch r.Intn(5) {
		case 0:
			return fmt.Sprintf("function c28b_%s { out a %s }\nc28b_%s\nout after\n!function c28b_%s\n", id, tail, id, id)
		case 1:
			return fmt.Sprintf("c28w = 0\nwhile { $c28w < 1 } { c28w = 1; out a %s }\nout after\n", tail)
		case 2:
			return fmt.Sprintf("time { out a %s }\nout after\n", tail)
		case 3:
			return fmt.Sprintf("function c28t_%s (n: int) { out $n }\nc28t_%s abc\nc28t_%s 3\nout after\n!function c28t_%s\n", id, id, id, id)
		default:
			return fmt.Sprintf("private c28p_%s { out a %s }\nc28p_%s\nout after\n", id, tail, id)
		}
	}
	switch r.Intn(6) {
	case 0, 1:
		// && / || chains in every run mode: the skipped processes are deregistered by hand in the run-mode code
		units := genChain(r, 6, true)
		modes := []string{"normal", "try", "trypipe"}
		wrappers := [][]string{{"plain", "function"}, {"try", "fn-try"}, {"trypipe", "fn-trypipe"}}
		m := r.Intn(3)
		return mkChainCase("c28_"+id, modes[m], wrappers[m][r.Intn(2)], units).Block
	case 2, 3:
		// break / continue / return through nested blocks and functions
		funcs := genCF(r, "c28_"+id)
		var b strings.Builder
		for _, f := range funcs {
			b.WriteString("function " + f.Name + " {\n")
			cfSrc(f.Body, "  ", &b)
			b.WriteString("}\n")
		}
		b.WriteString(funcs[len(funcs)-1].Name + "\n")
		for _, f := range funcs {
			b.WriteString("!function " + f.Name + "\n")
		}
		return b.String()
	case 4:
		return genDataflow(r, "c28_"+id)
	default:
		// sub-shells, foreach with early exit, nested try
		n := 2 + r.Intn(5)
		return fmt.Sprintf("a [1..%d] -> foreach i { if { $i == %d } then { break foreach }; out \"${ out $i -> cast str }\" }\ntry { out a; false; out b }\nout ${ out c | cast str } @{ ja [1..2] }\ntrypipe { out x -> match y -> cast str }\nout z || out w\n", n+3, n)
	}
}

func init() {
	register(&Property{
		ID:    "C28",
		Level: "exploration",
		Rule: "batches of 24 PRNG programs — && / || chains in normal, try and trypipe run modes (plain, in functions, in try / trypipe blocks), nested functions with break / continue / return, dataflow pipelines, foreach with early break, sub-shells, function / while / time / private bodies that only fail to parse when they are reached, calls whose typed parameters cannot be converted, blocks that are never entered (while / foreach with zero iterations, false if / !if conditions, switch without a matching case; alone, in functions, loops, try and bg) — executed concurrently from 2-8 goroutines in one murex process with PRNG scheduling yields at the process life-cycle hook points; observed: every `fid.register` / `fid.deregister` hook event, the live FID table sampled every 150 us while the programs run, and the table once the batch is quiet (bounded polling); " +
			"oracle: no function id is handed out twice during the life of the process, no two live table entries carry the same id, every id registered in the batch is deregistered, and no process descending from a finished program is left in the table; non-trivial = a batch containing try / trypipe / || / break / return / continue programs (the paths with hand-written deregistration); distinct by (batch, interleaving signature)",
		Assumptions: []string{"quiescence is decided by bounded polling of the table (leftovers unchanged over 150 polls), not by a fixed sleep"},
		Technique:   "runtime monitoring: hook event log (exactly-once register / deregister, unique ids) and live-table sampling under concurrent programs with injected yields",
		Run: func(x *Ctx) {
			pool := x.NewPool(false)
			n := x.Pick(400, 20000)
			var cases []*proto.Case
			for i := 0; i < n; i++ {
				r := x.Rng("batch", i)
				a := c28Args{Runners: 2 + r.Intn(7), Seed: uint64(r.Int63()) | 1}
				if i%5 == 4 {
					a.Seed = 0 // some batches without injected yields
				}
				for k := 0; k < 24; k++ {
					a.Programs = append(a.Programs, c28Program(r, fmt.Sprintf("%d_%d_%d", x.Seed, i, k)))
				}
				args, _ := json.Marshal(a)
				cases = append(cases, &proto.Case{ID: fmt.Sprintf("c28-%d", i), Op: "c28.concurrent", Args: args, TimeoutMs: 240000})
			}
			x.RunAll(pool, cases)
		},
		Check: func(x *Ctx, c *proto.Case, r *proto.Result) {
			if x.Bad(c, r) {
				return
			}
			var a c28Args
			var o c28Out
			json.Unmarshal(c.Args, &a)
			if err := json.Unmarshal(r.Out, &o); err != nil {
				x.Inconclusive("malformed c28 result")
				return
			}
			if o.Truncated {
				x.Inconclusive("event log truncated")
				return
			}
			x.Eval(len(a.Programs) - 1)
			x.Count("function_ids_registered", int64(o.Registered))
			x.Count("function_ids_deregistered", int64(o.Deregistered))
			x.Count("live_table_samples", o.Samples)
			x.SetAdd("interleaving_signatures", o.Sig)
			nt := false
			for _, p := range a.Programs {
				if strings.Contains(p, "try") || strings.Contains(p, "||") || strings.Contains(p, "break") || strings.Contains(p, "return") || strings.Contains(p, "continue") {
					nt = true
				}
			}
			if nt {
				x.Nontrivial(c.ID + o.Sig)
			}
			if c.ID == "c28-0" {
				x.Sample(map[string]any{"runners": a.Runners, "first_program_of_24": a.Programs[0], "ids_registered": o.Registered, "ids_deregistered": o.Deregistered, "largest_live_table": o.MaxLive, "left_in_table_when_quiet": o.Left[0]})
			}
			if len(o.DupIDs) > 0 {
				x.Viol("fid:handed-out-twice", fmt.Sprintf("function ids %v were registered more than once in this process (batch of %d programs, %d runners)", o.DupIDs, len(a.Programs), a.Runners), c, o.DupIDs, "unique ids")
			}
			if len(o.LiveDups) > 0 {
				x.Viol("fid:two-live-processes-share-an-id", fmt.Sprintf("the live FID table held two processes carrying the same id: %v", o.LiveDups), c, o.LiveDups, "unique ids")
			}
			if len(o.NeverDereg) > 0 {
				x.Viol("fid:never-deregistered", fmt.Sprintf("ids %v were registered by the batch and never deregistered once it was quiet", trunc(fmt.Sprint(o.NeverDereg), 300)), c, o.NeverDereg, "every id deregistered")
			}
			for i, left := range o.Left {
				if len(left) > 0 {
					x.Viol("fid:left-in-table", fmt.Sprintf("after the batch was quiet, processes %v of this finished program were still in the FID table:\n%s", left, a.Programs[i]), c, left, "no process left")
					break
				}
			}
		},
	})
}
