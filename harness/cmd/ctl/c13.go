package main

import (
	"encoding/json"
	"fmt"
	"math"
	"math/rand"
	"strconv"
	"strings"

	"verif/proto"
)

type c13Item struct {
	S    string `json:"s"`
	Back string `json:"back"`
	Err  string `json:"err,omitempty"`
}

type c13Out struct {
	Ints   []c13Item `json:"ints"`
	Floats []c13Item `json:"floats"`
	Bools  []c13Item `json:"bools"`
}

type c13Args struct {
	Ints   []int64  `json:"ints"`
	Floats []uint64 `json:"floats"`
	Bools  []bool   `json:"bools"`
}

func c13Int(r *rand.Rand) int64 {
	const lim = int64(1)<<53 - 1
	switch r.Intn(10) {
	case 0:
		return []int64{0, 1, -1, lim, -lim, lim - 1, 1 << 31, -(1 << 31), 1<<31 - 1, 1 << 32, -(1 << 32), 1<<32 + 1, 1 << 52, 999999999999999, -999999999999999, 1000000000000000}[r.Intn(16)]
	case 1:
		p := int64(1)
		for k := r.Intn(16); k > 0; k-- {
			p *= 10
		}
		return p * int64(1-2*r.Intn(2))
	case 2:
		return int64(r.Intn(2001) - 1000)
	case 3:
		return int64(1)<<uint(r.Intn(53)) + int64(r.Intn(3)-1)
	default:
		return r.Int63n(2*lim+1) - lim
	}
}

func c13Float(r *rand.Rand) uint64 {
	for {
		var f float64
		switch r.Intn(10) {
		case 0:
			f = []float64{0, math.Copysign(0, -1), math.SmallestNonzeroFloat64, -math.SmallestNonzeroFloat64, math.MaxFloat64, -math.MaxFloat64, 2.2250738585072014e-308, 2.2250738585072009e-308, 0.1, 0.2, 0.30000000000000004, 1e21, 1e22, 1e-7, 123456789.12345679, 9007199254740993, 1.7976931348623157e308, 4.9406564584124654e-324}[r.Intn(18)]
		case 1, 2:
			f = math.Float64frombits(r.Uint64()) // any bit pattern
		case 3:
			f = float64(r.Intn(2000)-1000) / float64(1+r.Intn(1000))
		case 4:
			f = math.Float64frombits(uint64(r.Intn(1 << 20))) // subnormals
		case 5:
			f = math.Ldexp(r.Float64(), r.Intn(2098)-1074)
		case 6:
			s := fmt.Sprintf("%d.%017d", r.Intn(10), r.Int63n(100000000000000000))
			f, _ = strconv.ParseFloat(s, 64)
		default:
			f = (r.Float64() - 0.5) * math.Pow(10, float64(r.Intn(40)-20))
		}
		if math.IsNaN(f) || math.IsInf(f, 0) {
			continue
		}
		return math.Float64bits(f)
	}
}

type c13Lang struct {
	Kind string `json:"kind"`
	Lit  string `json:"lit"`
	Var  string `json:"var"`
}

func init() {
	register(&Property{
		ID:    "C13",
		Level: "exploration",
		Rule: "API: PRNG int64 values with |n| < 2^53 (boundaries 2^53-1, +-2^31, +-2^32, powers of two +-1, powers of ten), finite float64 values (random bit patterns, subnormals, +-0, extreme exponents, 17-significant-digit decimals) and booleans converted value -> string -> value with types.ConvertGoType; language: the same kinds of values preset in typed variables (int / num / float / bool), printed with `out $v`, read back through the API, compared inside an expression (`$v == literal`) and assigned with `set TYPE v = literal`; " +
			"oracle: the string form parses back (murex and strconv) to the identical value, bit-identical for floats incl. the sign of zero at the API; non-trivial = |int| >= 2^31, or a float whose shortest decimal form has >= 15 significant digits or an exponent beyond +-20, or a subnormal; distinct by value",
		Assumptions: []string{"in the language part floats are compared numerically (0 == -0)", "NaN and infinities are outside the property (finite floats only)"},
		Technique:   "runtime monitoring: value -> string -> value round trip over generated scalars (API calls in the worker and murex programs)",
		Run: func(x *Ctx) {
			pool := x.NewPool(false)
			var cases []*proto.Case
			total := x.Pick(50000, 5000000)
			per := 5000
			for b := 0; b*per < total; b++ {
				r := x.Rng("api", b)
				var a c13Args
				for i := 0; i < per; i++ {
					switch i % 5 {
					case 0, 1:
						a.Ints = append(a.Ints, c13Int(r))
					case 2, 3:
						a.Floats = append(a.Floats, c13Float(r))
					default:
						a.Bools = append(a.Bools, r.Intn(2) == 0)
					}
				}
				args, _ := json.Marshal(a)
				cases = append(cases, &proto.Case{ID: fmt.Sprintf("c13-api-%d", b), Op: "c13.convert", Args: args, Expect: args, TimeoutMs: 120000})
			}
			nl := x.Pick(2000, 50000)
			perProg := 40
			for b := 0; b*perProg < nl; b++ {
				r := x.Rng("lang", b)
				var items []c13Lang
				var vars []proto.Var
				var rv []string
				var prog strings.Builder
				for i := 0; i < perProg; i++ {
					var it c13Lang
					it.Var = fmt.Sprintf("v%d", i)
					switch i % 5 {
					case 0, 1:
						it.Kind, it.Lit = "int", strconv.FormatInt(c13Int(r), 10)
					case 2:
						it.Kind, it.Lit = "num", strconv.FormatFloat(math.Float64frombits(c13Float(r)), 'f', -1, 64)
					case 3:
						it.Kind, it.Lit = "float", strconv.FormatFloat(math.Float64frombits(c13Float(r)), 'f', -1, 64)
					default:
						it.Kind, it.Lit = "bool", strconv.FormatBool(r.Intn(2) == 0)
					}
					if len(it.Lit) > 60 {
						// very long decimal expansions: API preset only
						it.Kind = "num"
					}
					items = append(items, it)
					vars = append(vars, proto.Var{Name: it.Var, Type: it.Kind, Value: it.Lit})
					rv = append(rv, it.Var, "s"+it.Var)
					// printed, compared in an expression, and re-assigned through `set`
					fmt.Fprintf(&prog, "out \"$%s|\"\n", it.Var)
					if it.Kind != "bool" && len(it.Lit) <= 60 {
						fmt.Fprintf(&prog, "expr $%s == %s; out \"|\"\n", it.Var, it.Lit)
					} else {
						fmt.Fprintf(&prog, "out \"true|\"\n")
					}
					if len(it.Lit) <= 60 {
						fmt.Fprintf(&prog, "set %s s%s = %s\n", it.Kind, it.Var, it.Lit)
					} else {
						fmt.Fprintf(&prog, "set %s s%s = $%s\n", it.Kind, it.Var, it.Var)
					}
				}
				exp, _ := json.Marshal(items)
				cases = append(cases, &proto.Case{ID: fmt.Sprintf("c13-lang-%d", b), Op: "prog", Block: prog.String(), Vars: vars, ReadVars: rv, Expect: exp, TimeoutMs: 60000})
			}
			x.RunAll(pool, cases)
		},
		Check: func(x *Ctx, c *proto.Case, r *proto.Result) {
			if x.Bad(c, r) {
				return
			}
			nontrivF := func(f float64) bool {
				s := strconv.FormatFloat(f, 'e', -1, 64)
				mant := strings.SplitN(s, "e", 2)
				digits := len(strings.NewReplacer(".", "", "-", "").Replace(mant[0]))
				exp, _ := strconv.Atoi(mant[1])
				return digits >= 15 || exp > 20 || exp < -20
			}
			if c.Op == "c13.convert" {
				var a c13Args
				var out c13Out
				json.Unmarshal(c.Expect, &a)
				if err := json.Unmarshal(r.Out, &out); err != nil || len(out.Ints) != len(a.Ints) || len(out.Floats) != len(a.Floats) || len(out.Bools) != len(a.Bools) {
					x.Inconclusive("worker returned a malformed c13 result")
					return
				}
				x.Eval(len(a.Ints) + len(a.Floats) + len(a.Bools) - 1)
				for i, n := range a.Ints {
					it := out.Ints[i]
					if n >= 1<<31 || n <= -(1<<31) {
						x.Nontrivial("i" + fmt.Sprint(n))
					}
					p, perr := strconv.ParseInt(it.S, 10, 64)
					if it.Err != "" || perr != nil || p != n || it.Back != strconv.FormatInt(n, 10) {
						x.Viol("api:int", fmt.Sprintf("int %d -> string %q -> %s (err %q)", n, it.S, it.Back, it.Err), nil, it, n)
					}
					if i == 0 {
						x.Sample(map[string]any{"int": n, "string": it.S, "back": it.Back})
					}
				}
				for i, bits := range a.Floats {
					it := out.Floats[i]
					f := math.Float64frombits(bits)
					if nontrivF(f) {
						x.Nontrivial("f" + fmt.Sprint(bits))
					}
					p, perr := strconv.ParseFloat(it.S, 64)
					if it.Err != "" || perr != nil || math.Float64bits(p) != bits || it.Back != strconv.FormatUint(bits, 10) {
						x.Viol("api:float", fmt.Sprintf("float64 %v (bits %#x) -> string %q -> bits %s (err %q)", f, bits, trunc(it.S, 80), it.Back, it.Err), nil, it, bits)
					}
					if i == 0 {
						x.Sample(map[string]any{"float": f, "string": trunc(it.S, 60)})
					}
				}
				for i, v := range a.Bools {
					it := out.Bools[i]
					if it.Err != "" || it.S != strconv.FormatBool(v) || it.Back != strconv.FormatBool(v) {
						x.Viol("api:bool", fmt.Sprintf("bool %v -> %q -> %s", v, it.S, it.Back), nil, it, v)
					}
				}
				x.Count("api_ints", int64(len(a.Ints)))
				x.Count("api_floats", int64(len(a.Floats)))
				x.Count("api_bools", int64(len(a.Bools)))
				return
			}
			var items []c13Lang
			json.Unmarshal(c.Expect, &items)
			x.Eval(len(items) - 1)
			run := r.Runs[0]
			lines := strings.Split(string(run.Stdout), "|\n")
			if len(lines) != 2*len(items)+1 {
				x.Viol("lang:batch-shape", fmt.Sprintf("batch of %d values printed %d fields; stderr=%q", len(items), len(lines)-1, trunc(string(run.Stderr), 600)), c, trunc(string(run.Stdout), 1500), nil)
				return
			}
			same := func(kind, got, lit string) bool {
				switch kind {
				case "int":
					a, e1 := strconv.ParseInt(strings.TrimSpace(got), 10, 64)
					b, _ := strconv.ParseInt(lit, 10, 64)
					return e1 == nil && a == b
				case "num", "float":
					a, e1 := strconv.ParseFloat(strings.TrimSpace(got), 64)
					b, _ := strconv.ParseFloat(lit, 64)
					return e1 == nil && a == b
				}
				return got == lit
			}
			for i, it := range items {
				x.Count("lang_"+it.Kind, 1)
				if it.Kind == "int" {
					if n, _ := strconv.ParseInt(it.Lit, 10, 64); n >= 1<<31 || n <= -(1<<31) {
						x.Nontrivial("li" + it.Lit)
					}
				} else if it.Kind != "bool" {
					if f, _ := strconv.ParseFloat(it.Lit, 64); nontrivF(f) {
						x.Nontrivial("lf" + it.Lit)
					}
				}
				fail := func(where, got string) {
					x.Viol("lang:"+it.Kind+":"+where, fmt.Sprintf("%s value %s: %s gave %q; stderr=%q", it.Kind, trunc(it.Lit, 80), where, trunc(got, 80), trunc(string(run.Stderr), 300)), c, got, it.Lit)
				}
				if !same(it.Kind, lines[2*i], it.Lit) {
					fail("out $v", lines[2*i])
				}
				if lines[2*i+1] != "true" {
					fail("$v == literal", lines[2*i+1])
				}
				if v, ok := run.Vars[it.Var]; !ok || !same(it.Kind, v, it.Lit) {
					fail("variable read-back", v)
				}
				if v, ok := run.Vars["s"+it.Var]; !ok || !same(it.Kind, v, it.Lit) {
					fail("set TYPE v = literal", v)
				}
			}
		},
	})
}
