package main

import (
	"bytes"
	"encoding/json"
	"fmt"
	"math/rand"

	"verif/proto"
)

type c01Writer struct {
	Sizes    []int `json:"sizes"`
	OpenedBy int   `json:"opened_by"`
	Via         string `json:"via,omitempty"`
	EOFWithData bool   `json:"eof_with_data,omitempty"`
}

type c01Args struct {
	Writers    []c01Writer `json:"writers"`
	Reader     string      `json:"reader"`
	ReadSeed   int64       `json:"read_seed"`
	YieldSeed  uint64      `json:"yield_seed"`
	ReadsFirst int         `json:"reads_first"`
	LateReader bool        `json:"late_reader,omitempty"`
}

type c01Chunk struct {
	W   int  `json:"w"`
	Seq int  `json:"seq"`
	Len int  `json:"len"`
	OK  bool `json:"ok"`
}

type c01Sample struct {
	Written  uint64 `json:"written"`
	Read     uint64 `json:"read"`
	Buffered int    `json:"buffered"`
	Deps     int32  `json:"deps"`
	Max      int    `json:"max"`
}

type c01Out struct {
	Chunks       []c01Chunk  `json:"chunks"`
	Garbage      string      `json:"garbage,omitempty"`
	TotalRead    int         `json:"total_read"`
	WriteErrs    []string    `json:"write_errs,omitempty"`
	ShortWrites  int         `json:"short_writes"`
	CloseStamps  []int64     `json:"close_stamps"`
	EOFStamp     int64       `json:"eof_stamp"`
	Samples      []c01Sample `json:"samples"`
	NSamples     int         `json:"n_samples"`
	NonMonotone  string      `json:"non_monotone,omitempty"`
	FinalWritten uint64      `json:"final_written"`
	FinalRead    uint64      `json:"final_read"`
	ReadCalls    int         `json:"read_calls"`
	Sig          uint64      `json:"sig"`
	Hits         uint64      `json:"hits"`
	MaxBuffered  int         `json:"max_buffered"`
	LimitLifted  bool        `json:"limit_lifted"`
}

func c01Size(r *rand.Rand, big bool) int {
	// the size of one Write call, header included (0 = an empty write; 1..10 are not used: a chunk needs its 10 byte header)
	switch k := r.Intn(40); {
	case k == 0:
		return 0
	case k < 20:
		return 11 + r.Intn(200)
	case k < 30:
		return 11 + r.Intn(4096)
	case k < 36:
		return 11 + r.Intn(65536)
	case big && k < 38:
		return []int{1<<20 - 1, 1 << 20, 1<<20 + 1, 1<<20 + 11}[r.Intn(4)]
	case big && k == 38:
		return 3 << 20
	}
	return 11 + r.Intn(1000)
}

func init() {
	register(&Property{
		ID:    "C01",
		Level: "exploration",
		Rule: "API histories on a real streams.Stdin: 1-6 writer goroutines (some opened late by a running writer, as createProcess does) each issue a PRNG sequence of Write calls of self-describing chunks [magic][writer][seq][len][payload(writer,seq)] with sizes from 0 to 3 MiB across the 1 MiB back-pressure limit and payload bytes over 0..255, then Close (a fifth of the writers hand the same bytes over through ReadFrom instead, from a source that returns them piece by piece and, half of the time, the last piece together with io.EOF; ReadFrom's byte count is checked too); one reader drains with Read (random buffer sizes) / WriteTo / ReadAll / Read then ReadAll (in a quarter of the histories the reader starts late, once the pipe is full and a writer is parked on the back-pressure limit) while a sampler polls Stats and the buffer state; hook yields perturb the check-then-act windows of Read/Write/ReadAll; plus byte strings pushed through a murex pipeline of byte-preserving builtins; " +
			"oracle (offline over the recorded history): every chunk whole, in per-writer sequence order, exactly once, payload intact; Write returns len(p), nil; the reader's EOF comes after every writer's Close call; counters monotone, read <= written, exact at quiescence; buffered < limit + largest chunk of every writer while the limit is in force; every history finishes; non-trivial = >= 2 writers or a write across 1 MiB; distinct by history description",
		Assumptions: []string{"ForceClose / cancelled contexts legitimately drop data and are not generated", "ReadAll is a non-consuming snapshot: at most one terminal ReadAll per stream", "the framing parser runs in the worker (harness code) because histories move up to tens of MiB; its verdict records are checked in the controller"},
		Technique:   "runtime monitoring: recorded producer/consumer history with unique self-describing chunks, offline exactly-once/order/conservation checker, hook-injected yields",
		Run: func(x *Ctx) {
			pool := x.NewPool(false)
			n := x.Pick(400, 10000)
			var cases []*proto.Case
			for i := 0; i < n; i++ {
				r := x.Rng("hist", i)
				big := i%8 == 0
				nw := 1 + r.Intn(6)
				if big {
					nw = 1 + r.Intn(3)
				}
				a := c01Args{Reader: []string{"read", "writeto", "readall", "read-then-readall"}[i%4], ReadSeed: r.Int63(), YieldSeed: uint64(r.Int63()) | 1, ReadsFirst: 1 + r.Intn(6)}
				// in a quarter of the histories the reader starts late: only when the pipe is full
				// and a writer is parked on the limit (or every writer is done)
				a.LateReader = i%8 >= 6 // readers "readall" and "read-then-readall"
				budget := 4 << 20
				for w := 0; w < nw; w++ {
					wr := c01Writer{OpenedBy: -1}
					if w > 0 && r.Intn(3) == 0 {
						wr.OpenedBy = r.Intn(w)
					}
					for k := r.Intn(25); k > 0; k-- {
						s := c01Size(r, big)
						if s > budget {
							s = 11 + r.Intn(100)
						}
						budget -= s
						wr.Sizes = append(wr.Sizes, s)
					}
					if a.LateReader && w == 0 {
						// enough volume, in many writes, to fill the pipe while nobody reads
						for k := 0; k < 30; k++ {
							wr.Sizes = append(wr.Sizes, 50000+r.Intn(20000))
						}
					}
					if !a.LateReader && r.Intn(5) == 0 {
						// this writer hands its bytes over through ReadFrom, from a source that returns
						// them in the same pieces and (half of the time) the last piece together with io.EOF.
						// ReadFrom moves 1 KiB per Write call, so next to other writers its chunks stay
						// within that size (one whole chunk per call); alone it may use any size
						wr.Via, wr.EOFWithData = "readfrom", r.Intn(2) == 0
						if nw > 1 {
							for k := range wr.Sizes {
								if wr.Sizes[k] > 1024 {
									wr.Sizes[k] = 11 + r.Intn(1014)
								}
							}
						}
					}
					a.Writers = append(a.Writers, wr)
				}
				args, _ := json.Marshal(a)
				cases = append(cases, &proto.Case{ID: fmt.Sprintf("c01-%d", i), Op: "c01.pipe", Args: args, TimeoutMs: 60000})
			}
			// byte strings through a murex pipeline of byte-preserving builtins
			np := x.Pick(60, 1500)
			for i := 0; i < np; i++ {
				r := x.Rng("pipeline", i)
				size := r.Intn(5000)
				if i%6 == 0 {
					size = 1<<20 - 5 + r.Intn(10)
				}
				if i%15 == 1 {
					size = 2<<20 + r.Intn(1<<20)
				}
				b := make([]byte, size)
				r.Read(b)
				stages := 1 + r.Intn(4)
				block := "<stdin>"
				for s := 0; s < stages; s++ {
					block += " -> cast " + []string{"str", "generic", "json", "*"}[r.Intn(4)]
				}
				cases = append(cases, &proto.Case{ID: fmt.Sprintf("c01-pipe-%d", i), Op: "prog", Block: block, HasStdin: true, Stdin: b, StdinType: "generic", YieldSeeds: []uint64{uint64(r.Int63()) | 1}, Drain: true, TimeoutMs: 60000})
			}
			x.RunAll(pool, cases)
		},
		Check: func(x *Ctx, c *proto.Case, r *proto.Result) {
			if x.Bad(c, r) {
				return
			}
			if c.Op == "prog" {
				run := r.Runs[0]
				x.Count("pipeline_cases", 1)
				x.Count("pipeline_bytes", int64(len(c.Stdin)))
				if len(c.Stdin) >= 1<<20-5 {
					x.Nontrivial("pipeline" + fmt.Sprint(len(c.Stdin)) + c.Block)
				}
				x.SetAdd("interleaving_signatures", fmt.Sprint(run.Sig))
				if !bytes.Equal(run.Stdout, c.Stdin) {
					off := 0
					for off < len(run.Stdout) && off < len(c.Stdin) && run.Stdout[off] == c.Stdin[off] {
						off++
					}
					x.Viol("pipeline:bytes-differ", fmt.Sprintf("`%s` fed %d random bytes produced %d bytes (first difference at offset %d); stderr=%q", c.Block, len(c.Stdin), len(run.Stdout), off, trunc(string(run.Stderr), 200)), c, len(run.Stdout), len(c.Stdin))
				}
				return
			}
			var a c01Args
			var o c01Out
			json.Unmarshal(c.Args, &a)
			if err := json.Unmarshal(r.Out, &o); err != nil {
				x.Inconclusive("malformed c01 result")
				return
			}
			// what was written
			total, crosses := 0, false
			maxChunk := make([]int, len(a.Writers))
			nchunks := make([]int, len(a.Writers))
			for wi, w := range a.Writers {
				for _, s := range w.Sizes {
					total += s
					if s > 0 {
						nchunks[wi]++
					}
					if s > maxChunk[wi] {
						maxChunk[wi] = s
					}
					if s >= 1<<20 {
						crosses = true
					}
				}
			}
			key := string(c.Args)
			if len(a.Writers) >= 2 || crosses {
				x.Nontrivial(key)
			}
			x.Count("histories "+a.Reader, 1)
			for _, w := range a.Writers {
				if w.Via == "readfrom" {
					x.Count("writers_using_ReadFrom", 1)
				}
			}
			x.Count("bytes_moved", int64(total))
			x.Count("write_calls", int64(func() int { n := 0; for _, w := range a.Writers { n += len(w.Sizes) }; return n }()))
			x.Count("read_calls", int64(o.ReadCalls))
			x.Count("stats_samples", int64(o.NSamples))
			x.Count("yield_points_hit", int64(o.Hits))
			x.SetAdd("interleaving_signatures", fmt.Sprint(o.Sig))
			if len(a.Writers) <= 2 && total < 2000 {
				x.Sample(map[string]any{"history": a, "chunks_read": len(o.Chunks), "bytes": total})
			}
			viol := func(sig, msg string) {
				x.Viol("pipe:"+sig+":"+a.Reader, fmt.Sprintf("%s (reader %s, %d writers, %d bytes written, %d read; yield seed %d)", msg, a.Reader, len(a.Writers), total, o.TotalRead, a.YieldSeed), c, map[string]any{"total_read": o.TotalRead, "garbage": o.Garbage, "final_written": o.FinalWritten, "final_read": o.FinalRead, "eof_stamp": o.EOFStamp, "close_stamps": o.CloseStamps}, map[string]any{"total": total})
			}
			if len(o.WriteErrs) > 0 || o.ShortWrites > 0 {
				viol("write-result", fmt.Sprintf("Write/Read returned errors %v or %d short writes", o.WriteErrs, o.ShortWrites))
				return
			}
			if o.Garbage != "" {
				viol("framing", "the byte stream read back is not a sequence of whole chunks: "+o.Garbage+" (bytes lost, duplicated or interleaved inside a Write)")
				return
			}
			next := make([]int, len(a.Writers))
			for _, ch := range o.Chunks {
				if ch.W < 0 || ch.W >= len(a.Writers) {
					viol("foreign-chunk", fmt.Sprintf("chunk of unknown writer %d", ch.W))
					return
				}
				if !ch.OK {
					viol("payload", fmt.Sprintf("payload of chunk (writer %d, seq %d) altered", ch.W, ch.Seq))
					return
				}
				if ch.Seq != next[ch.W] {
					viol("order", fmt.Sprintf("writer %d: chunk seq %d arrived where seq %d was expected (lost, duplicated or reordered)", ch.W, ch.Seq, next[ch.W]))
					return
				}
				next[ch.W]++
			}
			for wi := range a.Writers {
				if next[wi] != nchunks[wi] {
					viol("loss", fmt.Sprintf("writer %d wrote %d chunks, %d arrived before EOF", wi, nchunks[wi], next[wi]))
					return
				}
			}
			if o.TotalRead != total {
				viol("conservation", fmt.Sprintf("%d bytes read, %d written", o.TotalRead, total))
				return
			}
			for wi, st := range o.CloseStamps {
				if o.EOFStamp < st {
					viol("early-eof", fmt.Sprintf("the reader saw end-of-stream (stamp %d) before writer %d called Close (stamp %d)", o.EOFStamp, wi, st))
					return
				}
			}
			if o.NonMonotone != "" {
				viol("stats-non-monotone", "Stats went backwards: "+o.NonMonotone)
				return
			}
			for _, s := range o.Samples {
				if s.Read > s.Written {
					viol("stats-read-gt-written", fmt.Sprintf("sample read=%d > written=%d", s.Read, s.Written))
					return
				}
			}
			if o.FinalWritten != uint64(total) || o.FinalRead != uint64(total) {
				viol("stats-final", fmt.Sprintf("at quiescence Stats() reports written=%d read=%d, the history wrote and delivered %d bytes", o.FinalWritten, o.FinalRead, total))
				return
			}
			if !o.LimitLifted {
				bound := 1 << 20
				for _, m := range maxChunk {
					bound += m
				}
				if o.MaxBuffered >= bound {
					viol("back-pressure", fmt.Sprintf("buffer reached %d bytes with the 1 MiB limit in force (bound %d = limit + largest chunk of each writer)", o.MaxBuffered, bound))
				}
			}
		},
	})
}
