package main

import (
	"encoding/json"
	"fmt"
	"math/rand"
	"reflect"
	"strconv"
	"strings"

	"verif/proto"
)

var c14Atoms = []string{"#", "# x", "\"", "'", ",", ":", ": ", " ", "  ", "\t", "\n", "a", "b", "Z", "0", "1", "yes", "no", "null", "~", "0x1F", "true", "false", "1e3", "- x", "[", "]", "{", "}", "é", "日本", "😀", "|", ">", "&", "*", "!", "%", "@", "`", "\\", "=", "x=1", "[a]", "1979-05-27", ".", "..", ";"}

// c14Multiline: whether the current document may contain line breaks in strings
// (they are confined to a minority of documents: see the known findings)
var c14Multiline bool

func c14String(r *rand.Rand) string {
	s := c14StringRaw(r)
	if !c14Multiline {
		s = strings.ReplaceAll(s, "\n", " ")
	}
	return s
}

func c14StringRaw(r *rand.Rand) string {
	switch r.Intn(12) {
	case 0:
		return ""
	case 1:
		return []string{"yes", "no", "null", "~", "true", "false", "0x1F", "1e3", "123", "1.5", "- x", "# c", " lead", "trail ", "a: b", "a\nb", "\"q\"", "'s'", "#", ",", "a,b", "\ttab", "on", "off", "y", "n", ".inf", "2001-01-01"}[r.Intn(28)]
	}
	n := 1 + r.Intn(4)
	var b strings.Builder
	for i := 0; i < n; i++ {
		b.WriteString(c14Atoms[r.Intn(len(c14Atoms))])
	}
	return b.String()
}

// c14IntOnly: numbers are integers (set while generating TOML tables that sit inside an array)
var c14IntOnly bool

func c14Num(r *rand.Rand) float64 {
	if c14IntOnly {
		// integers and quarter fractions: at most 7 significant digits
		if r.Intn(3) == 0 {
			return float64(r.Intn(20000)-10000) / 4
		}
		return float64(r.Intn(200000) - 100000)
	}
	switch r.Intn(6) {
	case 5:
		// boundaries of the integer and float ranges
		b := []float64{9007199254740992, 9007199254740994, 2147483648, 4294967296, 9223372036854775807, 9223372036854775808, 1e19, -1e19, 18446744073709551616, 1e300, -1e300, 1.7976931348623157e308, 1e-7, 5e-324, 1.5e-300, 123456789012345680000}
		return b[r.Intn(len(b))]
	case 0:
		return float64(r.Intn(100))
	case 1:
		return -float64(r.Intn(100000))
	case 2:
		return float64(r.Intn(100000)) / 64
	case 3:
		return 0
	}
	return float64(r.Int63n(1 << 40))
}

func c14Scalar(r *rand.Rand, null bool) any {
	switch k := r.Intn(10); {
	case k < 5:
		return c14String(r)
	case k < 8:
		return c14Num(r)
	case k < 9 && null:
		return nil
	}
	return r.Intn(2) == 0
}

func c14Key(r *rand.Rand, i int) string {
	if r.Intn(3) == 0 {
		return fmt.Sprintf("k%d", i)
	}
	s := strings.TrimSpace(strings.NewReplacer("\n", "", "\t", "").Replace(c14String(r)))
	return fmt.Sprintf("%s%d", s, i) // never empty, unique by suffix
}

func c14Value(r *rand.Rand, depth int, null bool) any {
	if depth <= 0 || r.Intn(3) == 0 {
		return c14Scalar(r, null)
	}
	if r.Intn(2) == 0 {
		n := r.Intn(4)
		arr := make([]any, 0, n)
		for i := 0; i < n; i++ {
			arr = append(arr, c14Value(r, depth-1, null))
		}
		return arr
	}
	m := map[string]any{}
	for i := r.Intn(4); i > 0; i-- {
		m[c14Key(r, i)] = c14Value(r, depth-1, null)
	}
	return m
}

// TOML: maps; no null; arrays homogeneous (all strings / all numbers / all bools / all maps)
var c14TomlHostileKeys, c14TomlArrayFloats bool

func c14Toml(r *rand.Rand, depth int) map[string]any {
	m := map[string]any{}
	for i := 1 + r.Intn(4); i > 0; i-- {
		k := fmt.Sprintf("key_%d-%c", i, 'a'+rune(r.Intn(26)))
		if c14TomlHostileKeys {
			k = c14Key(r, i)
		}
		switch c := r.Intn(10); {
		case c == 9 && r.Intn(3) == 0:
			// empty table / empty array, at any level
			if r.Intn(2) == 0 {
				m[k] = map[string]any{}
			} else {
				m[k] = []any{}
			}
		case c < 5 || depth <= 0:
			m[k] = c14Scalar(r, false)
		case c < 7:
			kind := r.Intn(4)
			n := 1 + r.Intn(3)
			arr := make([]any, 0, n)
			for j := 0; j < n; j++ {
				switch kind {
				case 0:
					arr = append(arr, c14String(r))
				case 1:
					if c14TomlArrayFloats {
						arr = append(arr, c14Num(r))
					} else {
						arr = append(arr, float64(r.Intn(100000)-50000))
					}
				case 2:
					arr = append(arr, r.Intn(2) == 0)
				default:
					prev := c14IntOnly
					c14IntOnly = !c14TomlArrayFloats
					arr = append(arr, any(c14Toml(r, 0)))
					c14IntOnly = prev
				}
			}
			m[k] = arr
		default:
			m[k] = any(c14Toml(r, depth-1))
		}
	}
	return m
}

type c14Expect struct {
	Format string `json:"format"`
	Doc    string `json:"doc"`
	Known  string `json:"known,omitempty"` // generator-side note of a deliberately included known-deviation shape
}

// c14Diff describes the first difference between want and got
func c14Diff(want, got any, path string) string {
	if reflect.DeepEqual(want, got) {
		return ""
	}
	switch w := want.(type) {
	case map[string]any:
		g, ok := got.(map[string]any)
		if !ok {
			return fmt.Sprintf("type-changed:map->%s", kindOf(got))
		}
		for _, k := range sortedKeys(w) {
			gv, has := g[k]
			if !has {
				return "key-lost:" + strClass(k)
			}
			if d := c14Diff(w[k], gv, path+"."+k); d != "" {
				return d
			}
		}
		return "key-added"
	case []any:
		g, ok := got.([]any)
		if !ok {
			return fmt.Sprintf("type-changed:array->%s", kindOf(got))
		}
		if len(g) != len(w) {
			// which element is missing?
			for i := range w {
				if i >= len(g) || !reflect.DeepEqual(w[i], g[i]) {
					return "element-lost:" + elemClass(w[i])
				}
			}
			return "element-added"
		}
		for i := range w {
			if d := c14Diff(w[i], g[i], fmt.Sprintf("%s[%d]", path, i)); d != "" {
				return d
			}
		}
	case string:
		if _, ok := got.(string); ok {
			return "string-altered:" + strClass(w)
		}
		return fmt.Sprintf("type-changed:string(%s)->%s", strClass(w), kindOf(got))
	case float64:
		return fmt.Sprintf("number-altered->%s", kindOf(got))
	case bool:
		return fmt.Sprintf("bool-altered->%s", kindOf(got))
	case nil:
		return fmt.Sprintf("null-altered->%s", kindOf(got))
	}
	return "different"
}

func kindOf(v any) string {
	switch v.(type) {
	case nil:
		return "null"
	case string:
		return "string"
	case float64:
		return "number"
	case bool:
		return "bool"
	case []any:
		return "array"
	case map[string]any:
		return "map"
	}
	return "other"
}

func strClass(s string) string {
	switch {
	case s == "":
		return "empty"
	case strings.HasPrefix(s, "#"):
		return "hash-prefixed"
	case strings.ContainsAny(s, "\n"):
		return "multiline"
	case strings.HasPrefix(s, " ") || strings.HasPrefix(s, "\t"):
		return "leading-space"
	case strings.HasSuffix(s, " ") || strings.HasSuffix(s, "\t"):
		return "trailing-space"
	}
	return "other"
}

func elemClass(v any) string {
	switch t := v.(type) {
	case map[string]any:
		// csv row: class of its first cell in key order
		ks := sortedKeys(t)
		allEmpty := true
		for _, k := range ks {
			if s, _ := t[k].(string); s != "" {
				allEmpty = false
			}
		}
		if allEmpty {
			return "row-all-empty"
		}
		for _, k := range ks {
			if s, ok := t[k].(string); ok && strings.HasPrefix(s, "#") {
				return "row-with-hash-cell"
			}
		}
		return "row"
	case string:
		return "string-" + strClass(t)
	}
	return kindOf(v)
}

// c14KnownShape names the feature of the input that is covered by a recorded
// finding ("" when the document has none of them)
func c14KnownShape(format string, want any) string {
	var hasMultiline, hasHostileKey, hasArrayFloat func(v any, inArr bool) bool
	hasMultiline = func(v any, _ bool) bool {
		switch t := v.(type) {
		case string:
			return strings.Contains(t, "\n")
		case []any:
			for _, e := range t {
				if hasMultiline(e, true) {
					return true
				}
			}
		case map[string]any:
			for k, e := range t {
				if strings.Contains(k, "\n") || hasMultiline(e, false) {
					return true
				}
			}
		}
		return false
	}
	bare := func(k string) bool {
		if k == "" {
			return false
		}
		for _, c := range k {
			if !(c >= 'a' && c <= 'z' || c >= 'A' && c <= 'Z' || c >= '0' && c <= '9' || c == '_' || c == '-') {
				return false
			}
		}
		return true
	}
	hasHostileKey = func(v any, _ bool) bool {
		switch t := v.(type) {
		case []any:
			for _, e := range t {
				if hasHostileKey(e, true) {
					return true
				}
			}
		case map[string]any:
			for k, e := range t {
				if !bare(k) || hasHostileKey(e, false) {
					return true
				}
			}
		}
		return false
	}
	hasArrayFloat = func(v any, inArr bool) bool {
		switch t := v.(type) {
		case float64:
			return strconv.FormatFloat(t, 'f', -1, 32) != strconv.FormatFloat(t, 'f', -1, 64)
		case []any:
			for _, e := range t {
				if hasArrayFloat(e, true) {
					return true
				}
			}
		case map[string]any:
			for _, e := range t {
				if hasArrayFloat(e, inArr) { // tables inside an array of tables are affected too
					return true
				}
			}
		}
		return false
	}
	switch format {
	case "yaml":
		if hasMultiline(want, false) {
			return "multiline-string"
		}
	case "toml":
		if hasHostileKey(want, false) {
			return "key-needs-quoting"
		}
		if hasArrayFloat(want, false) {
			return "float-over-7-digits"
		}
	case "jsonl":
		if arr, ok := want.([]any); ok {
			for _, e := range arr {
				if e == nil {
					return "null-element"
				}
			}
			for _, e := range arr {
				if _, ok := e.([]any); ok {
					return "nested-array-element"
				}
			}
		}
	case "csv":
		if arr, ok := want.([]any); ok {
			for _, row := range arr {
				m, _ := row.(map[string]any)
				ks := sortedKeys(m)
				if len(ks) > 0 {
					if s, _ := m[ks[0]].(string); strings.HasPrefix(s, "#") && !strings.ContainsAny(s, "\",\n\r") {
						return "hash-first-cell"
					}
				}
			}
			for _, row := range arr {
				m, _ := row.(map[string]any)
				if len(m) == 1 {
					for _, v := range m {
						if s, _ := v.(string); s == "" {
							return "single-column-empty-cell"
						}
					}
				}
			}
		}
	}
	return ""
}

// c14MatchesKnownDeviation: a document carrying a known-finding shape is only
// reported as that finding when the result is what the recorded deviation
// produces; any other wrong result is an ordinary violation
func c14MatchesKnownDeviation(format, shape string, want, got any, failed bool) bool {
	arr, _ := want.([]any)
	switch format + ":" + shape {
	case "jsonl:nested-array-element":
		if failed {
			return false
		}
		// the reader starts in table mode: array lines before the first
		// non-array line become rows of strings (fmt.Sprint of each member);
		// arrays after it keep their types.
		var lead []any
		i := 0
		for ; i < len(arr); i++ {
			inner, ok := arr[i].([]any)
			if !ok {
				break
			}
			row := make([]any, len(inner))
			for j, m := range inner {
				switch t := m.(type) {
				case float64, bool:
					row[j] = fmt.Sprint(t)
				default:
					row[j] = m
				}
			}
			lead = append(lead, row)
		}
		dev := append([]any{}, lead...)
		if i < len(arr) {
			dev = append(dev, arr[i:]...)
		}
		return reflect.DeepEqual(any(dev), got)
	case "jsonl:null-element":
		return reflect.DeepEqual(got, any([]any{nil}))
	case "csv:hash-first-cell", "csv:single-column-empty-cell":
		if failed {
			return format+":"+shape == "csv:hash-first-cell"
		}
		var dev []any
		for _, row := range arr {
			m, _ := row.(map[string]any)
			ks := sortedKeys(m)
			first, _ := m[ks[0]].(string)
			if strings.HasPrefix(first, "#") && !strings.ContainsAny(first, "\",\n\r") {
				continue // written unquoted, so the reader takes the line for a comment
			}
			if len(m) == 1 && first == "" {
				continue
			}
			dev = append(dev, row)
		}
		g, _ := got.([]any)
		if len(dev) == 0 && len(g) == 0 {
			return true
		}
		return reflect.DeepEqual(any(dev), got)
	case "toml:float-over-7-digits":
		if failed {
			return false
		}
		var conv func(v any) any
		conv = func(v any) any {
			switch t := v.(type) {
			case float64:
				f, _ := strconv.ParseFloat(strconv.FormatFloat(t, 'f', -1, 32), 64)
				return f
			case []any:
				o := make([]any, len(t))
				for i := range t {
					o[i] = conv(t[i])
				}
				return o
			case map[string]any:
				o := map[string]any{}
				for k, e := range t {
					o[k] = conv(e)
				}
				return o
			}
			return v
		}
		d := conv(want)
		if reflect.DeepEqual(d, got) {
			return true
		}
		// the library keeps some floats exact: accept any per-number mix of exact and float32-short forms
		var mix func(w, g any) bool
		mix = func(w, g any) bool {
			switch t := w.(type) {
			case float64:
				gf, ok := g.(float64)
				f32, _ := strconv.ParseFloat(strconv.FormatFloat(t, 'f', -1, 32), 64)
				return ok && (gf == t || gf == f32)
			case []any:
				ga, ok := g.([]any)
				if !ok || len(ga) != len(t) {
					return false
				}
				for i := range t {
					if !mix(t[i], ga[i]) {
						return false
					}
				}
				return true
			case map[string]any:
				gm, ok := g.(map[string]any)
				if !ok || len(gm) != len(t) {
					return false
				}
				for k, e := range t {
					ge, has := gm[k]
					if !has || !mix(e, ge) {
						return false
					}
				}
				return true
			}
			return reflect.DeepEqual(w, g)
		}
		return mix(want, got)
	}
	return true // toml key quoting and yaml multi-line strings: no precise model of the deviation
}

func init() {
	register(&Property{
		ID:    "C14",
		Level: "exploration",
		Rule: "random JSON documents held in a json typed variable and piped through `format X -> format json`: yaml <- any value (depth <= 4), toml <- maps without null and with homogeneous arrays, jsonl <- arrays of scalars / maps (rarely nested arrays and nulls), csv <- arrays of flat maps of string cells over one key set; strings over a hostile alphabet (#, quotes, separators, leading/trailing spaces, YAML/TOML keywords, dates, newlines, tabs, non-ASCII, empty), finite numbers, booleans; " +
			"oracle: the decoded result deep-equals the input (numbers as float64); non-trivial = the document contains a string with a format metacharacter or keyword, or nesting >= 2; distinct by (format, document)",
		Assumptions: []string{"toml documents use non-empty keys (go-toml v1 does not quote the empty key: third-party limit, DESIGN D17)", "csv header names do not start with the comment character", "comparison is on decoded JSON values"},
		Run: func(x *Ctx) {
			pool := x.NewPool(false)
			n := x.Pick(1000, 30000)
			var cases []*proto.Case
			id := 0
			add := func(format string, doc any, known string) {
				id++
				b, _ := json.Marshal(doc)
				exp, _ := json.Marshal(c14Expect{Format: format, Doc: string(b), Known: known})
				cases = append(cases, &proto.Case{ID: fmt.Sprintf("c14-%d", id), Op: "prog", Block: "$d -> format " + format + " -> format json",
					Vars: []proto.Var{{Name: "d", Type: "json", Value: string(b)}}, Expect: exp, TimeoutMs: 30000})
			}
			for i := 0; i < n; i++ {
				r := x.Rng("doc", i)
				c14Multiline = i%10 == 3
				c14TomlHostileKeys = i%5 == 1
				c14TomlArrayFloats = i%5 == 2
				// yaml: a document is a map or an array
				var y any
				for {
					y = c14Value(r, 3, true)
					if _, ok := y.(map[string]any); ok {
						break
					}
					if _, ok := y.([]any); ok {
						break
					}
				}
				add("yaml", y, "")
				// toml (numbers with more than 7 significant digits only in a minority of documents)
				c14IntOnly = !c14TomlArrayFloats
				add("toml", c14Toml(r, 2), "")
				c14IntOnly = false
				// jsonl
				cnt := 1 + r.Intn(6)
				arr := make([]any, 0, cnt)
				known := ""
				for j := 0; j < cnt; j++ {
					switch c := r.Intn(40); {
					case c == 0:
						arr = append(arr, []any{c14Num(r), c14String(r), true})
						known = "nested-array"
					case c == 1:
						arr = append(arr, nil)
						known = "null"
					case c < 20:
						arr = append(arr, c14Scalar(r, false))
					default:
						m := map[string]any{}
						for k := 1 + r.Intn(3); k > 0; k-- {
							m[c14Key(r, k)] = c14Scalar(r, false)
						}
						arr = append(arr, m)
					}
				}
				add("jsonl", arr, known)
				// csv
				cols := 1 + r.Intn(4)
				keys := make([]string, cols)
				for k := range keys {
					keys[k] = fmt.Sprintf("col%d", k)
					if r.Intn(3) == 0 {
						keys[k] = fmt.Sprintf("c %d,x", k)
					}
				}
				rows := 1 + r.Intn(6)
				tbl := make([]any, 0, rows)
				for j := 0; j < rows; j++ {
					m := map[string]any{}
					for _, k := range keys {
						m[k] = c14String(r)
					}
					tbl = append(tbl, m)
				}
				add("csv", tbl, "")
			}
			x.RunAll(pool, cases)
		},
		Check: func(x *Ctx, c *proto.Case, r *proto.Result) {
			if x.Bad(c, r) {
				return
			}
			var e c14Expect
			json.Unmarshal(c.Expect, &e)
			run := r.Runs[0]
			var want, got any
			json.Unmarshal([]byte(e.Doc), &want)
			x.Count("documents "+e.Format, 1)
			if strings.ContainsAny(e.Doc, "#:,'~|>&*!%@`{}[]") || jsonDepth(want) >= 2 {
				x.Nontrivial(e.Format + e.Doc)
			}
			if len(e.Doc) < 100 {
				x.Sample(map[string]any{"format": e.Format, "document": e.Doc})
			}
			if m := hasCrashText(string(run.Stderr) + r.OSErr); m != "" {
				x.Viol("format:"+e.Format+":panic", fmt.Sprintf("`%s` on %s: panic text %q: %s", c.Block, trunc(e.Doc, 200), m, trunc(string(run.Stderr), 300)), c, string(run.Stderr), "no panic")
				return
			}
			shape := c14KnownShape(e.Format, want)
			if shape != "" {
				x.Count("documents_with_known_finding_shape "+e.Format+":"+shape, 1)
			}
			err := json.Unmarshal(run.Stdout, &got)
			if shape != "" && (err != nil || run.Exit != 0 || !reflect.DeepEqual(want, got)) && c14MatchesKnownDeviation(e.Format, shape, want, got, err != nil || run.Exit != 0) {
				x.Viol("format:"+e.Format+":known-shape:"+shape, fmt.Sprintf("%s -> format %s -> format json gave exit=%d %s; stderr=%q", trunc(e.Doc, 400), e.Format, run.Exit, trunc(string(run.Stdout), 300), trunc(string(run.Stderr), 200)), c, string(run.Stdout), want)
				return
			}
			if err != nil || run.Exit != 0 {
				cls := "error"
				if want == nil {
					cls = "error:top-level-null"
				} else if arr, ok := want.([]any); ok {
					for _, el := range arr {
						if el == nil {
							cls = "error:null-element"
						}
					}
				}
				x.Viol("format:"+e.Format+":"+cls, fmt.Sprintf("`%s` on %s failed: exit=%d stdout=%q stderr=%q", c.Block, trunc(e.Doc, 300), run.Exit, trunc(string(run.Stdout), 200), trunc(string(run.Stderr), 300)), c, string(run.Stdout), want)
				return
			}
			if d := c14Diff(want, got, ""); d != "" {
				x.Viol("format:"+e.Format+":"+d, fmt.Sprintf("%s -> format %s -> format json gave %s (first difference: %s); stderr=%q", trunc(e.Doc, 400), e.Format, trunc(mustJSON(got), 400), d, trunc(string(run.Stderr), 200)), c, got, want)
			}
		},
	})
}
