package main

import (
	"encoding/json"
	"fmt"
	"math/rand"
	"os"
	"regexp"
	"strconv"
	"strings"

	"verif/proto"
)

type c20Res struct {
	BlockPanic string `json:"block_panic,omitempty"`
	ExprPanic  string `json:"expr_panic,omitempty"`
	TokPanic   string `json:"tok_panic,omitempty"`
	BlockErr   bool   `json:"block_err"`
	HL         string `json:"hl"`
	Unsafe     bool   `json:"unsafe"`
	LastFlow   int    `json:"last_flow"`
}

var c20Tokens = []string{"{", "}", "[", "]", "(", ")", "$", "@", "%", "'", "\"", "\\", "|", "&", ";", "?", "=", "<", ">", "~", "#", "/", "\n", " ", "\t", "->", "=>", "|>", ">>", "&&", "||", "?:", "??", "..", ":", ",", ".", "!", "*", "+", "-", "`",
	"out", "if", "then", "else", "foreach", "function", "set", "true", "false", "null", "x", "abc", "0", "12", "3.5", "$v", "@a", "${", "@{", "%[", "%{", "%(", "$(", "<stdin>", "<err>", "<!out>", "[[", "]]", "é", "日", "😀", "\r"}

// seed programs: valid murex of the kinds used by the other monitors
func c20Seeds(r *rand.Rand) string {
	switch r.Intn(8) {
	case 0:
		return chainSrc(genChain(r, 6, true))
	case 1:
		funcs := genCF(r, fmt.Sprint(r.Intn(100)))
		var b strings.Builder
		for _, f := range funcs {
			b.WriteString("function " + f.Name + " {\n")
			cfSrc(f.Body, "  ", &b)
			b.WriteString("}\n")
		}
		return b.String()
	case 2:
		t, _ := genExpr(r, 4)
		return "v = " + t
	case 3:
		nodes := 12
		var b strings.Builder
		printJSON(r, genJSONValue(r, 3, &nodes, c36Str, true), &b)
		return "out %" + b.String()
	case 4:
		return genDataflow(r, "s")
	case 5:
		l, _ := encDouble(r, c09Payload(r, 8))
		return "out " + l + " 'sq' %(br (x)) -> regexp s/a/b/"
	case 6:
		s, _ := c23Signature(r, true)
		return "function f (" + s + ") { out $1 }"
	}
	return "a [1..5] -> foreach i { if { $i == 2 } then { out \"x$i\" } else { err y } } | [1..2]e |> f.txt; $v.a.b = %{k: [1,2]}"
}

func c20Input(r *rand.Rand) string {
	if r.Intn(3) == 0 {
		// token soup
		n := 1 + r.Intn(40)
		var b strings.Builder
		for i := 0; i < n; i++ {
			b.WriteString(c20Tokens[r.Intn(len(c20Tokens))])
		}
		return b.String()
	}
	// mutate a valid program
	runes := []rune(c20Seeds(r))
	for m := 1 + r.Intn(4); m > 0 && len(runes) > 0; m-- {
		i := r.Intn(len(runes))
		switch r.Intn(5) {
		case 0: // delete a span
			j := i + 1 + r.Intn(5)
			if j > len(runes) {
				j = len(runes)
			}
			runes = append(runes[:i], runes[j:]...)
		case 1: // insert a token
			tok := []rune(c20Tokens[r.Intn(len(c20Tokens))])
			runes = append(runes[:i], append(tok, runes[i:]...)...)
		case 2: // replace a rune
			runes[i] = []rune(c20Tokens[r.Intn(len(c20Tokens))])[0]
		case 3: // truncate
			runes = runes[:i]
		default: // duplicate a span
			j := i + 1 + r.Intn(8)
			if j > len(runes) {
				j = len(runes)
			}
			runes = append(runes[:j], append(append([]rune{}, runes[i:j]...), runes[j:]...)...)
		}
	}
	if len(runes) > 300 {
		runes = runes[:300]
	}
	return string(runes)
}

var ansiRx = regexp.MustCompile("\x1b\\[[0-9;]*m")

func c20Run(x *Ctx, prop string) {
	pool := x.NewPool(false)
	total := x.Pick(600000, 12000000)
	if prop == "C37" {
		total = x.Pick(400000, 8000000)
	}
	per := 250
	var cases []*proto.Case
	for b := 0; b*per < total; b++ {
		r := x.Rng("inputs", b)
		inputs := make([]string, per)
		for i := range inputs {
			inputs[i] = strings.ReplaceAll(c20Input(r), "\x1b", "")
		}
		args, _ := json.Marshal(inputs)
		if f := os.Getenv("VERIF_C20_DUMP"); f != "" && b < 4 {
			os.WriteFile(fmt.Sprintf("%s.%d", f, b), args, 0644)
		}
		cases = append(cases, &proto.Case{ID: fmt.Sprintf("%s-%d", strings.ToLower(prop), b), Op: "c20.parse", Args: args, TimeoutMs: 30000})
	}
	x.RunAll(pool, cases)

	// native coverage-guided fuzzing of the same entry points, seeded with generated inputs
	target := "FuzzParseBlock"
	if prop == "C37" {
		target = "FuzzHighlight"
	}
	r := x.Rng("fuzzseeds", 0)
	var seeds []string
	for i := 0; i < 400; i++ {
		seeds = append(seeds, strings.ReplaceAll(c20Input(r), "\x1b", ""))
	}
	execs := x.Pick(300000, 10000000)
	if v, err := strconv.Atoi(os.Getenv("VERIF_FUZZ_EXECS")); err == nil && v > 0 {
		execs = v // corpus maintenance (tools/update_corpus.sh)
	}
	o, err := x.nativeFuzz(target, execs, seeds)
	switch {
	case err != nil:
		x.broken(err.Error())
	case o.TimedOut:
		x.Inconclusive("native fuzzing watchdog expired after " + fmt.Sprint(o.Execs) + " executions")
	default:
		x.Eval(int(o.Execs))
		x.Count("native_fuzz_executions", o.Execs)
		x.Count("native_fuzz_inputs_that_reached_new_coverage", o.NewInputs)
		if o.Failed {
			if o.Input == "" {
				x.Viol("fuzz:failure-without-input", "the native fuzzer reported a failure: "+o.Output, nil, o.Output, "pass")
				break
			}
			before := len(x.viols)
			args, _ := json.Marshal([]string{o.Input})
			single := &proto.Case{ID: strings.ToLower(prop) + "-fuzz", Op: "c20.parse", Args: args, TimeoutMs: 30000}
			pool.Run([]*proto.Case{single}, func(sc *proto.Case, sr *proto.Result) {
				if sr.TimedOut {
					x.Viol("parse:no-termination", fmt.Sprintf("parsing %q did not terminate within 30 s (found by the native fuzzer)", o.Input), sc, trunc(sr.Dump, 3000), "terminates")
					return
				}
				c20Check(prop)(x, sc, sr)
			})
			if len(x.viols) == before {
				x.Viol("fuzz:failure-not-reproduced-by-worker", fmt.Sprintf("the native fuzzer failed on %q: %s", o.Input, trunc(o.Output, 1500)), single, o.Output, "pass")
			}
		}
	}
}

func c20Check(prop string) func(x *Ctx, c *proto.Case, r *proto.Result) {
	return func(x *Ctx, c *proto.Case, r *proto.Result) {
		var inputs []string
		json.Unmarshal(c.Args, &inputs)
		if r.TimedOut && len(inputs) > 1 {
			// a parser did not come back: find the input by running the batch one by one
			x.Inconclusive("batch watchdog expired; inputs re-run individually")
			pool := x.NewPool(false)
			var singles []*proto.Case
			for i, in := range inputs {
				args, _ := json.Marshal([]string{in})
				singles = append(singles, &proto.Case{ID: fmt.Sprintf("%s-%d", c.ID, i), Op: "c20.parse", Args: args, TimeoutMs: 5000})
			}
			pool.Run(singles, func(sc *proto.Case, sr *proto.Result) {
				if sr.TimedOut {
					var one []string
					json.Unmarshal(sc.Args, &one)
					x.Viol("parse:no-termination", fmt.Sprintf("parsing %q did not terminate within 10 s", one[0]), sc, sr.Dump[:min(len(sr.Dump), 3000)], "terminates")
				}
			})
			return
		}
		if x.Bad(c, r) {
			return
		}
		var out []c20Res
		if err := json.Unmarshal(r.Out, &out); err != nil || len(out) != len(inputs) {
			x.Inconclusive("malformed c20 result")
			return
		}
		x.Eval(len(inputs) - 1)
		for i, in := range inputs {
			res := out[i]
			if strings.ContainsAny(in, "{}[]()$@%'\"\\|&;") {
				x.Nontrivial(in)
			}
			single := func() *proto.Case {
				args, _ := json.Marshal([]string{in})
				return &proto.Case{ID: fmt.Sprintf("%s-%d", c.ID, i), Op: "c20.parse", Args: args, TimeoutMs: 10000}
			}
			if prop == "C20" {
				if res.BlockErr {
					x.Count("inputs_rejected_with_syntax_error", 1)
				} else {
					x.Count("inputs_parsed_to_a_tree", 1)
				}
				if i < 1 {
					x.Sample(map[string]any{"input": in, "syntax_error": res.BlockErr})
				}
				for which, p := range map[string]string{"block-parser": res.BlockPanic, "expression-parser": res.ExprPanic, "tokenizer": res.TokPanic} {
					if p != "" {
						cls := p
						if k := strings.Index(p, " @ "); k >= 0 {
							cls = classify(p[:k]) + "@" + p[k+3:]
						}
						x.Viol("parse:panic:"+which+":"+cls, fmt.Sprintf("%s panicked on %q: %s", which, in, p), single(), p, "tree or syntax error")
					}
				}
				continue
			}
			// C37
			if res.TokPanic != "" {
				x.Count("tokenizer_panics_left_to_C20", 1)
				continue
			}
			plain := ansiRx.ReplaceAllString(res.HL, "")
			if i < 1 {
				x.Sample(map[string]any{"input": in, "highlighted": res.HL})
			}
			if strings.Contains(res.HL, "\x1b[") {
				x.Count("inputs_with_colour_codes", 1)
			}
			if plain != in {
				// first difference
				off := 0
				pr, ir := []rune(plain), []rune(in)
				for off < len(pr) && off < len(ir) && pr[off] == ir[off] {
					off++
				}
				ctx := ""
				if off < len(ir) {
					ctx = string(ir[off])
				}
				cls := "rune-dropped-or-changed"
				if len(pr) > len(ir) {
					cls = "rune-added"
				}
				x.Viol("highlight:"+cls+":"+fmt.Sprintf("%q", ctx), fmt.Sprintf("highlighting %q gives %q after removing colour codes (first difference at rune %d)", in, plain, off), single(), plain, in)
			}
		}
	}
}

func init() {
	register(&Property{
		ID:    "C20",
		Level: "exploration",
		Rule: "PRNG rune strings up to 300 runes: token soup over {}[]()$@%'\"\\|&;?=<>~#/ newlines, operators, keywords, sigils and non-ASCII, and 1-4 random edits (delete / insert / replace / truncate / duplicate) of valid programs produced by the other monitors' generators (chains, control flow, expressions, %[] / %{} literals, quoted strings, function signatures); each is given to lang.ParseBlock, the expression and statement parsers (no execution) and the highlighting / autocomplete tokenizer at two cursor positions; " +
			"then Go's native coverage-guided fuzzer (harness/fuzz FuzzParseBlock, exact-capacity rune slices) runs the same four entry points for a fixed number of executions from 400 generated seeds plus the committed corpus; oracle: every call returns (a tree or a syntax error) — a recovered panic or a call that does not return within the watchdog is a violation; non-trivial = the input contains a bracket, quote, sigil or operator; distinct by input text",
		Assumptions: []string{"termination is decided by a per-batch watchdog; a batch that expires is re-run input by input with a 10 s limit each", "the native fuzzing phase is bounded by an execution count, not by time"},
		Technique:   "runtime monitoring: generated, mutated and coverage-guided (go test -fuzz) inputs through the real parsers with panic capture and a termination watchdog",
		Run:         func(x *Ctx) { c20Run(x, "C20") },
		Check:       c20Check("C20"),
	})
	register(&Property{
		ID:    "C37",
		Level: "exploration",
		Rule: "the same generator as C20 (token soup and mutated valid programs, valid Unicode, no ESC character) through parser.Parse(runes, 0); then Go's native coverage-guided fuzzer (harness/fuzz FuzzHighlight) for a fixed number of executions; oracle: the highlighted string with every `ESC [ ... m` sequence removed equals the input rune for rune; non-trivial = the input contains a bracket, quote, sigil or operator; distinct by input text",
		Assumptions: []string{"inputs contain no ESC (0x1B) character", "inputs on which the tokenizer panics are counted and left to C20"},
		Technique:   "runtime monitoring: inverse check (strip colour codes) over generated, mutated and coverage-guided (go test -fuzz) command lines",
		Run:         func(x *Ctx) { c20Run(x, "C37") },
		Check:       c20Check("C37"),
	})
}
