package main

import (
	"context"
	"encoding/json"
	"fmt"
	"math/rand"
	"os"
	"os/exec"
	"path/filepath"
	"sort"
	"strings"
	"sync"
	"time"

	"verif/proto"
)

type c10Res struct {
	Path    string     `json:"path"`
	CmdLine string     `json:"cmdline"`
	Calls   [][]string `json:"calls"`
	Others  []string   `json:"others,omitempty"`
	Err     string     `json:"err,omitempty"`
	Stderr  string     `json:"stderr,omitempty"`
}

const c10Punct = "!\"#$%&'()*+,-./:;<=>?@[\\]^_`{|}~"

var c10Extra = []string{" ", "\t", "\n", "\r", "é", "日", "😀", " ", " ", "\x7f", "\x01"}

func isSpecial(r rune) bool {
	return !(r >= 'a' && r <= 'z' || r >= 'A' && r <= 'Z' || r >= '0' && r <= '9')
}

func specials(args []string) string {
	set := map[rune]bool{}
	for _, a := range args {
		if a == "" {
			set[0] = true
		}
		for _, r := range a {
			if isSpecial(r) {
				set[r] = true
			}
		}
	}
	var rs []rune
	for r := range set {
		rs = append(rs, r)
	}
	sort.Slice(rs, func(i, j int) bool { return rs[i] < rs[j] })
	var b strings.Builder
	for _, r := range rs {
		if r == 0 {
			b.WriteString("<empty>")
		} else {
			b.WriteRune(r)
		}
	}
	return b.String()
}

type c10State struct {
	mu  sync.Mutex
	bad map[string]map[rune]bool // path -> characters that fail on their own
}

func (s *c10State) mark(path string, r rune) {
	s.mu.Lock()
	if s.bad[path] == nil {
		s.bad[path] = map[rune]bool{}
	}
	s.bad[path][r] = true
	s.mu.Unlock()
}

func (s *c10State) isBad(path string, r rune) bool {
	s.mu.Lock()
	defer s.mu.Unlock()
	return s.bad[path][r]
}

func c10Ok(args []string, res *c10Res) bool {
	if len(res.Calls) != 1 || len(res.Others) != 0 {
		return false
	}
	got := res.Calls[0]
	if len(got) != len(args) {
		return false
	}
	for i := range got {
		if got[i] != args[i] {
			return false
		}
	}
	return true
}

type c10Meta struct {
	Phase string `json:"phase"` // single | pair | random | clean
	Desc  []string
}

func c10RandomArg(r *rand.Rand, alphabet []string) string {
	n := r.Intn(9)
	if r.Intn(12) == 0 {
		n = 0
	}
	var b strings.Builder
	for i := 0; i < n; i++ {
		if r.Intn(3) == 0 {
			b.WriteByte("abcxyz019"[r.Intn(9)])
		} else {
			b.WriteString(alphabet[r.Intn(len(alphabet))])
		}
	}
	return b.String()
}

// c10Classify reports a failed round trip under a signature that names the smallest known cause
func c10Classify(x *Ctx, st *c10State, path, phase string, v []string, desc string, single *proto.Case, obs any) {
	sp := specials(v)
	explained := false
	for _, a := range v {
		if a == "" && st.isBad(path, 0) {
			explained = true
		}
		for _, r := range a {
			if st.isBad(path, r) {
				explained = true
			}
		}
	}
	switch phase {
	case "single":
		rs := []rune(sp)
		if sp == "<empty>" {
			st.mark(path, 0)
			x.Viol(path+":empty-argument", desc, single, obs, v)
			return
		}
		if len(rs) != 1 {
			x.Inconclusive("phase 1 vector with more than one special character")
			return
		}
		st.mark(path, rs[0])
		x.Viol(fmt.Sprintf("%s:char:%q", path, string(rs[0])), desc, single, obs, v)
	case "pair":
		if explained {
			x.Count("pair_failures_explained_by_single_character_findings", 1)
			return
		}
		x.Viol(fmt.Sprintf("%s:pair:%q", path, sp), desc, single, obs, v)
	default:
		if explained {
			x.Count("vector_failures_explained_by_single_character_findings", 1)
			return
		}
		x.Viol(fmt.Sprintf("%s:mix:%q", path, sp), desc, single, obs, v)
	}
}

func init() {
	st := &c10State{bad: map[string]map[rune]bool{}}
	var alphabet []string
	for _, r := range c10Punct {
		alphabet = append(alphabet, string(r))
	}
	alphabet = append(alphabet, c10Extra...)

	register(&Property{
		ID:    "C10",
		Level: "exploration",
		Rule: "argv vectors after the plain command name c10argv (a builtin added by the harness that records its parameters): phase 1 every ASCII punctuation character and a set of white-space / control / non-ASCII characters alone, at the start, in the middle, at the end of an argument and doubled; phase 2 every ordered pair of those characters; phase 3 PRNG vectors of 1-6 arguments of 0-8 characters from the whole alphabet; phase 4 the same from the alphabet minus the characters that failed alone in phase 1; " +
			"each vector goes (esccli) through the esccli builtin, whose output is executed as the parameters of c10argv, and (binary: every phase 1 vector, every 8th phase 2 vector, every 30th random vector) through the built `murex --execute argvecho <vector>` process, argvecho being a helper that prints its argv as JSON; oracle: esccli: exactly one c10argv call whose parameters equal the vector and no other command executed (exec hook events); binary: exit 0 and the helper received exactly the vector; non-trivial = a vector with at least one non-alphanumeric character; distinct by vector",
		Assumptions: []string{"arguments contain no NUL byte (cannot be passed through execve)", "a failure of a phase 3 vector that contains a character already failing alone in phase 1 is counted, not reported again"},
		Technique:   "runtime monitoring: inverse pair (escape, then murex's own parser and executor) over exhaustive single/pair characters and generated vectors, with exec hook events",
		Run: func(x *Ctx) {
			pool := x.NewPool(false)
			bin := x.murexBin()
			helpers := filepath.Join(verifRoot, "bin", "helpers")
			home := filepath.Join(x.scratch, "c10home")
			os.MkdirAll(home, 0755)

			// binary path: the real main.go: `murex --execute argvecho <vector>`
			runBin := func(vectors [][]string, phase string) {
				jobs := make(chan []string, 64)
				var wg sync.WaitGroup
				for w := 0; w < x.N; w++ {
					wg.Add(1)
					go func() {
						defer wg.Done()
						for v := range jobs {
							ctx, cancel := context.WithTimeout(context.Background(), 60*time.Second)
							cmd := exec.CommandContext(ctx, bin, append([]string{"--execute", "argvecho"}, v...)...)
							cmd.Env = []string{"PATH=" + helpers, "HOME=" + home, "TMPDIR=" + home, "MUREX_TEST_NO_EXEC_DEPS=1", "LANG=C.UTF-8"}
							cmd.Dir = home
							var stderr strings.Builder
							cmd.Stderr = &stderr
							out, err := cmd.Output()
							timedOut := ctx.Err() != nil
							cancel()
							x.Eval(1)
							x.Count("binary_round_trips", 1)
							if timedOut {
								x.Inconclusive("murex --execute did not finish within 60 s")
								continue
							}
							var got []string
							ok := err == nil && json.Unmarshal([]byte(strings.TrimSpace(string(out))), &got) == nil && len(got) == len(v)
							if ok {
								for k := range got {
									ok = ok && got[k] == v[k]
								}
							}
							if specials(v) != "" {
								x.Nontrivial("bin:" + strings.Join(v, "\x00"))
							}
							if ok {
								continue
							}
							args, _ := json.Marshal([][]string{v})
							desc := fmt.Sprintf("binary path: `murex --execute argvecho` with arguments %q: the helper received %q (stdout %q, %v, stderr %q)", v, got, trunc(string(out), 200), err, trunc(stderr.String(), 300))
							c10Classify(x, st, "binary", phase, v, desc, &proto.Case{ID: "c10-bin", Op: "c10.binary", Args: args, TimeoutMs: 60000}, got)
						}
					}()
				}
				for _, v := range vectors {
					jobs <- v
				}
				close(jobs)
				wg.Wait()
			}

			mk := func(id, phase string, vectors [][]string) *proto.Case {
				args, _ := json.Marshal(vectors)
				exp, _ := json.Marshal(c10Meta{Phase: phase})
				return &proto.Case{ID: id, Op: "c10.roundtrip", Args: args, Expect: exp, TimeoutMs: 120000}
			}
			runPhase := func(phase string, vectors [][]string, binEvery int) {
				var cases []*proto.Case
				var binv [][]string
				for i := 0; i < len(vectors); i += 100 {
					j := i + 100
					if j > len(vectors) {
						j = len(vectors)
					}
					cases = append(cases, mk(fmt.Sprintf("c10-%s-%d", phase, i/100), phase, vectors[i:j]))
				}
				for i, v := range vectors {
					if i%binEvery == 0 {
						binv = append(binv, v)
					}
				}
				x.RunAll(pool, cases)
				runBin(binv, phase)
			}

			// phase 1: single characters in every position
			var vectors [][]string
			for _, ch := range alphabet {
				for _, a := range []string{ch, ch + "b", "a" + ch + "b", "a" + ch, ch + ch, "a" + ch + ch + "b"} {
					vectors = append(vectors, []string{a}, []string{"x", a, "y"})
				}
			}
			vectors = append(vectors, []string{""}, []string{"a", "", "b"}, []string{"", ""})
			runPhase("single", vectors, 1)

			// phase 2: every ordered pair
			vectors = nil
			for _, c1 := range alphabet {
				for _, c2 := range alphabet {
					if c1 != c2 {
						vectors = append(vectors, []string{c1 + c2}, []string{"a" + c1 + c2 + "b", "z"})
					}
				}
			}
			runPhase("pair", vectors, x.Pick(8, 1))

			// phase 3 and 4: random vectors, from the whole alphabet and from the characters that pass alone
			var clean []string
			for _, ch := range alphabet {
				r := []rune(ch)[0]
				if !st.isBad("binary", r) && !st.isBad("esccli", r) {
					clean = append(clean, ch)
				}
			}
			x.Count("characters_that_pass_on_their_own", int64(len(clean)))
			vectors = nil
			n := x.Pick(6000, 300000)
			for i := 0; i < n; i++ {
				r := x.Rng("vec", i)
				ab := alphabet
				if i%2 == 1 && len(clean) > 0 {
					ab = clean
				}
				var v []string
				for k := 1 + r.Intn(6); k > 0; k-- {
					v = append(v, c10RandomArg(r, ab))
				}
				vectors = append(vectors, v)
			}
			runPhase("random", vectors, x.Pick(30, 30))
		},
		Check: func(x *Ctx, c *proto.Case, r *proto.Result) {
			if x.Bad(c, r) {
				return
			}
			var vectors [][]string
			var out [][2]c10Res
			var meta c10Meta
			json.Unmarshal(c.Args, &vectors)
			json.Unmarshal(c.Expect, &meta)
			if err := json.Unmarshal(r.Out, &out); err != nil || len(out) != len(vectors) {
				x.Inconclusive("malformed c10 result")
				return
			}
			x.Eval(len(vectors) - 1)
			for i, v := range vectors {
				sp := specials(v)
				if sp != "" {
					x.Nontrivial(strings.Join(v, "\x00"))
				}
				for k := range out[i] {
					res := &out[i][k]
					if res.Path == "" {
						continue
					}
					x.Count(res.Path+"_round_trips", 1)
					if c10Ok(v, res) {
						if i == 1 && sp != "" {
							x.Sample(map[string]any{"argv": v, "path": res.Path, "command_line": res.CmdLine, "parameters_received": res.Calls})
						}
						continue
					}
					single := func() *proto.Case {
						args, _ := json.Marshal([][]string{v})
						return &proto.Case{ID: fmt.Sprintf("%s-%d", c.ID, i), Op: "c10.roundtrip", Args: args, Expect: c.Expect, TimeoutMs: 60000}
					}
					desc := fmt.Sprintf("%s path: arguments %q became the command line %q; murex ran c10argv %d time(s) with %q and also ran %q (error %q)", res.Path, v, res.CmdLine, len(res.Calls), res.Calls, res.Others, trunc(res.Err+" "+res.Stderr, 200))
					c10Classify(x, st, res.Path, meta.Phase, v, desc, single(), res.Calls)
				}
			}
		},
	})
}
