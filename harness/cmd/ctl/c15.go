package main

import (
	"encoding/json"
	"fmt"
	"math/rand"
	"strconv"
	"strings"

	"verif/proto"
)

type c15Args struct {
	Type  string   `json:"type"`
	Elems []string `json:"elems"`
}

type c15Out struct {
	Types    []string `json:"types,omitempty"`
	Got      []string `json:"got"`
	WriteErr string   `json:"write_err,omitempty"`
	ReadErr  string   `json:"read_err,omitempty"`
}

type c15Expect struct {
	Kind  string   `json:"kind"` // api | foreach
	Type  string   `json:"type"`
	Elems []string `json:"elems"`
	Shape string   `json:"shape,omitempty"` // known-finding shape carried by the list
	Big   bool     `json:"big,omitempty"`
}

var c15Hostile = []string{"\x1b[31m", "\x01", "\x7f", "\x08", "\x0b", " ", "  ", "'", "\"", "`", "$", "@", "~", "*", "?", ";", "|", "&", "{", "}", "[", "]", "(", ")", "<", ">", "#", "\\", ",", ":", "=", "%", "!", "é", "日本", "😀", "a", "b", "Z", "0", "12", "-", "--x", "true", "null", "k: v", "- z", " #c", "//"}

func yamlPlain(s string) bool {
	if s == "" || strings.TrimSpace(s) != s {
		return false
	}
	c := s[0]
	if !(c >= 'a' && c <= 'z' || c >= 'A' && c <= 'Z') {
		return false
	}
	for _, r := range s {
		if !(r >= 'a' && r <= 'z' || r >= 'A' && r <= 'Z' || r >= '0' && r <= '9' || strings.ContainsRune(" _./-", r)) {
			return false
		}
	}
	switch strings.ToLower(s) {
	case "true", "false", "null", "yes", "no", "on", "off", "y", "n":
		return false
	}
	return true
}

// c15Elem draws one element from the legal alphabet of a type
func c15Elem(r *rand.Rand, typ string, size int) string {
	for try := 0; ; try++ {
		var b strings.Builder
		n := 1 + r.Intn(5)
		if size > 0 {
			n = size
		}
		for b.Len() < n {
			if size > 0 {
				b.WriteString(c15Hostile[r.Intn(len(c15Hostile))])
				continue
			}
			b.WriteString(c15Hostile[r.Intn(len(c15Hostile))])
			if b.Len() >= 1 && r.Intn(3) == 0 {
				break
			}
		}
		s := b.String()
		if r.Intn(12) == 0 && size == 0 {
			s = ""
		}
		switch typ {
		case "json":
			return s
		case "jsonl":
			return strings.TrimSpace(s)
		case "str", "string", "generic", "*":
			// tab and vertical tab are column separators of the generic reader (outside its legal alphabet)
			s = strings.TrimSpace(strings.NewReplacer("\t", " ", "\x0b", " ").Replace(s))
			if s != "" {
				return s
			}
		case "paths":
			s = strings.TrimSpace(strings.ReplaceAll(s, ":", "_"))
			if s != "" {
				return s
			}
		case "path":
			s = strings.TrimSpace(strings.ReplaceAll(s, "/", "_"))
			if s != "" {
				return s
			}
		case "yaml":
			if try > 30 || size > 0 {
				return "plain" + strconv.Itoa(r.Intn(100)) + strings.Repeat(" lorem-ipsum_0.9/x", size/18)
			}
			t := strings.NewReplacer("#", "h", ":", "c", "'", "q", "\"", "d").Replace(s)
			if yamlPlain(t) {
				return t
			}
		case "jsonc":
			// all documents of one jsonc stream are of one kind (the reader takes its
			// delimiter from the first character); c15JsoncObjects is set per list
			switch {
			case c15JsoncObjects:
				q, _ := json.Marshal(map[string]any{"k": s, "n": r.Intn(9)})
				return string(q)
			default:
				q, _ := json.Marshal([]any{s, true})
				return string(q)
			}
		default:
			return "el" + strconv.Itoa(r.Intn(1000))
		}
	}
}

var c15JsoncObjects bool

// c15ForeachDeviation: does the output match what the recorded finding produces?
func c15ForeachDeviation(shape string, elems []string, stdout string, exit int) bool {
	if exit != 0 {
		return false
	}
	var want strings.Builder
	switch shape {
	case "empty-element":
		for _, s := range elems {
			if s != "" {
				want.WriteString("[" + s + "]\n")
			}
		}
		if stdout == want.String() {
			return true
		}
		fallthrough // a generic list may carry both shapes
	case "generic-inner-space":
		// elements with inner spaces are re-spaced: equal after collapsing runs of spaces
		collapse := func(s string) string { return strings.Join(strings.Fields(s), " ") }
		var w []string
		for _, s := range elems {
			if s != "" {
				w = append(w, collapse("["+s+"]"))
			}
		}
		g := strings.Split(strings.TrimSuffix(stdout, "\n"), "\n")
		if len(w) == 0 {
			return stdout == ""
		}
		if len(g) != len(w) {
			return false
		}
		for i := range g {
			if collapse(g[i]) != w[i] {
				return false
			}
		}
		return true
	}
	return true
}

// c15ArrayDeviation: does the read-back list match what the recorded finding produces?
func c15ArrayDeviation(shape string, elems []string, o *c15Out) bool {
	switch shape {
	case "jsonc-multiple-elements":
		if o.WriteErr != "" || o.ReadErr != "" || len(o.Got) != len(elems) {
			return false
		}
		for i := range elems {
			if strings.TrimLeft(o.Got[i], "\n ") != elems[i] {
				return false
			}
		}
		return true
	case "json-empty-list":
		return o.WriteErr == "no data returned" && len(o.Got) == 0
	case "yaml-element-needs-quoting":
		// raw text such as `'q` can make the whole document unreadable
		if o.WriteErr == "" && strings.HasPrefix(o.ReadErr, "yaml:") {
			return true
		}
		// otherwise: same number of elements, and every plain element intact
		if o.WriteErr != "" || o.ReadErr != "" || len(o.Got) != len(elems) {
			return false
		}
		for i := range elems {
			if yamlPlain(elems[i]) && o.Got[i] != elems[i] {
				return false
			}
		}
		return true
	}
	return true
}

var c15Asserted = map[string]bool{"str": true, "string": true, "generic": true, "*": true, "json": true, "jsonl": true, "jsonc": true, "yaml": true, "path": true, "paths": true}

func init() {
	register(&Property{
		ID:    "C15",
		Level: "exploration",
		Rule: "the set of data types registered with both WriteArray and ReadArray is read from the running murex; for each of them PRNG lists of 0-50 single-line elements (a few lists with elements up to 60 KiB) over the per-type legal alphabet (json: any single-line text; jsonl: no leading/trailing whitespace; str/string/generic/*: also non-empty, no tabs; yaml: plain scalars that YAML resolves to strings; jsonc: compact JSON objects and arrays; path: no '/', paths: no ':') are written with WriteArray into a real stream and read back with ReadArray by a concurrent reader; the same lists, serialised by the harness, are iterated with `foreach`; " +
			"oracle: read-back list == written list, foreach runs the body once per element in order with the element verbatim; non-trivial = list has >= 2 elements and one of them has a metacharacter; distinct by (type, list); types without an alphabet entry (xml) and writers that refuse arrays (toml) are reported as uncovered, not as passes",
		Assumptions: []string{"elements are single-line", "for yaml only plain scalars are legal elements: its array writer copies elements as raw YAML text (recorded finding for elements that need quoting)", "for jsonl the foreach element is the raw JSON line"},
		Technique:   "runtime monitoring: write/read inverse pair on real streams with a concurrent reader, plus foreach over harness-serialised lists",
		Run: func(x *Ctx) {
			pool := x.NewPool(false)
			// discover the types
			var types []string
			pool.Run([]*proto.Case{{ID: "c15-types", Op: "c15.types"}}, func(c *proto.Case, r *proto.Result) {
				var o c15Out
				json.Unmarshal(r.Out, &o)
				types = o.Types
			})
			if len(types) == 0 {
				x.broken("worker reported no array types")
			}
			x.Note("types registered for both WriteArray and ReadArray: " + strings.Join(types, " "))
			var cases []*proto.Case
			id := 0
			n := x.Pick(300, 10000)
			for _, typ := range types {
				if !c15Asserted[typ] {
					x.Note("type " + typ + " has no legal-alphabet entry: executed with a benign list only, result reported, not asserted")
				}
				for i := 0; i < n; i++ {
					r := x.Rng("list-"+typ, i)
					cnt := r.Intn(51)
					if r.Intn(4) == 0 {
						cnt = r.Intn(4)
					}
					if (typ == "path" || typ == "paths") && cnt == 0 {
						cnt = 1
					}
					if !c15Asserted[typ] {
						if i > 2 {
							break
						}
						cnt = 3
					}
					big := i%60 == 59
					c15JsoncObjects = i%2 == 0
					elems := make([]string, cnt)
					for j := range elems {
						size := 0
						if big && j%7 == 0 {
							size = 1000 + r.Intn(60000)
						}
						elems[j] = c15Elem(r, typ, size)
					}
					shape := ""
					if typ == "yaml" && i%12 == 5 && cnt > 0 {
						elems[r.Intn(cnt)] = []string{"#f", "", "k: v", "- z", "true", "12", "null", "'q", "a #c"}[r.Intn(9)]
						shape = "yaml-element-needs-quoting"
					}
					if typ == "jsonc" && cnt >= 2 {
						shape = "jsonc-multiple-elements"
					}
					if typ == "json" && cnt == 0 {
						shape = "json-empty-list"
					}
					id++
					args, _ := json.Marshal(c15Args{Type: typ, Elems: elems})
					exp, _ := json.Marshal(c15Expect{Kind: "api", Type: typ, Elems: elems, Shape: shape, Big: big})
					cases = append(cases, &proto.Case{ID: fmt.Sprintf("c15-%d", id), Op: "c15.roundtrip", Args: args, Expect: exp, TimeoutMs: 60000})

					// foreach over a harness-serialised document
					if big || shape == "yaml-element-needs-quoting" {
						continue
					}
					fshape := ""
					for _, e := range elems {
						if e == "" && typ != "jsonl" {
							fshape = "empty-element"
						}
					}
					if fshape == "" && (typ == "generic" || typ == "*") {
						for _, e := range elems {
							if strings.Contains(e, " ") {
								fshape = "generic-inner-space"
							}
						}
					}
					var doc string
					want := elems
					switch typ {
					case "json":
						b, _ := json.Marshal(elems)
						doc = string(b)
					case "jsonl":
						var sb strings.Builder
						want = nil
						for _, e := range elems {
							q, _ := json.Marshal(e)
							q2 := strings.NewReplacer("\\u003c", "<", "\\u003e", ">", "\\u0026", "&").Replace(string(q))
							sb.WriteString(q2 + "\n")
							want = append(want, q2)
						}
						doc = sb.String()
					case "str", "generic", "*":
						doc = strings.Join(elems, "\n")
						if cnt > 0 {
							doc += "\n"
						}
					case "yaml":
						var sb strings.Builder
						for _, e := range elems {
							sb.WriteString("- " + e + "\n")
						}
						doc = sb.String()
						if cnt == 0 {
							doc = "[]\n"
						}
					default:
						continue
					}
					id++
					exp2, _ := json.Marshal(c15Expect{Kind: "foreach", Type: typ, Elems: want, Shape: fshape})
					cases = append(cases, &proto.Case{ID: fmt.Sprintf("c15-%d", id), Op: "prog", Block: "$l -> foreach c15i { out \"[$c15i]\" }",
						Vars: []proto.Var{{Name: "l", Type: typ, Value: doc}}, Expect: exp2, TimeoutMs: 60000})
				}
			}
			x.RunAll(pool, cases)
		},
		Check: func(x *Ctx, c *proto.Case, r *proto.Result) {
			if x.Bad(c, r) {
				return
			}
			var e c15Expect
			json.Unmarshal(c.Expect, &e)
			meta := false
			for _, s := range e.Elems {
				if strings.ContainsAny(s, " '\"`$@~*?;|&{}[]()<>#\\,:=%!") {
					meta = true
				}
			}
			key := e.Kind + "|" + e.Type + "|" + strings.Join(e.Elems, "\x00")
			if len(e.Elems) >= 2 && meta {
				x.Nontrivial(key)
			}
			x.Count(e.Kind+" "+e.Type, 1)
			if len(e.Elems) > 1 && len(e.Elems) < 5 && !e.Big {
				x.Sample(map[string]any{"kind": e.Kind, "type": e.Type, "elements": e.Elems})
			}
			if e.Kind == "foreach" {
				run := r.Runs[0]
				var want strings.Builder
				for _, s := range e.Elems {
					want.WriteString("[" + s + "]\n")
				}
				same := string(run.Stdout) == want.String()
				if !same && e.Type == "jsonl" {
					// the element is a JSON line: compare the decoded values (murex may re-encode < > &)
					gl := strings.Split(strings.TrimSuffix(string(run.Stdout), "\n"), "\n")
					if len(e.Elems) == 0 {
						gl = nil
					}
					same = len(gl) == len(e.Elems)
					for i := 0; same && i < len(gl); i++ {
						var a, b any
						ea := json.Unmarshal([]byte(strings.TrimSuffix(strings.TrimPrefix(gl[i], "["), "]")), &a)
						eb := json.Unmarshal([]byte(e.Elems[i]), &b)
						same = ea == nil && eb == nil && a == b
					}
				}
				if !same || run.Exit != 0 {
					got := strings.Split(strings.TrimSuffix(string(run.Stdout), "\n"), "\n")
					cls := "wrong-elements"
					if len(got) != len(e.Elems) {
						cls = "wrong-count"
					}
					if e.Shape != "" && c15ForeachDeviation(e.Shape, e.Elems, string(run.Stdout), run.Exit) {
						cls = "known-shape:" + e.Shape
					}
					x.Viol("foreach:"+e.Type+":"+cls, fmt.Sprintf("foreach over a %s list of %d elements %q printed %q (exit %d, stderr %q)", e.Type, len(e.Elems), trunc(fmt.Sprint(e.Elems), 300), trunc(string(run.Stdout), 300), run.Exit, trunc(string(run.Stderr), 200)), c, string(run.Stdout), want.String())
				}
				return
			}
			var o c15Out
			json.Unmarshal(r.Out, &o)
			if !c15Asserted[e.Type] {
				x.Count("uncovered_type_runs "+e.Type, 1)
				if o.WriteErr != "" || o.ReadErr != "" || !sameList(o.Got, e.Elems) {
					x.Inconclusive("type " + e.Type + " (no alphabet entry) did not round-trip a benign list: " + trunc(o.WriteErr+o.ReadErr, 80))
				}
				return
			}
			if o.WriteErr != "" || o.ReadErr != "" || !sameList(o.Got, e.Elems) {
				sig := "array:" + e.Type + ":mismatch"
				if e.Shape != "" && c15ArrayDeviation(e.Shape, e.Elems, &o) {
					sig = "array:" + e.Type + ":known-shape:" + e.Shape
				} else if len(o.Got) != len(e.Elems) {
					sig = "array:" + e.Type + ":count"
				}
				first := ""
				for i := range e.Elems {
					if i >= len(o.Got) || o.Got[i] != e.Elems[i] {
						g := "<missing>"
						if i < len(o.Got) {
							g = o.Got[i]
						}
						first = fmt.Sprintf("first difference at element %d: wrote %q, read %q", i, trunc(e.Elems[i], 80), trunc(g, 80))
						break
					}
				}
				x.Viol(sig, fmt.Sprintf("%s: wrote %d elements, read back %d (write error %q, read error %q); %s", e.Type, len(e.Elems), len(o.Got), o.WriteErr, o.ReadErr, first), c, trunc(fmt.Sprint(o.Got), 2000), trunc(fmt.Sprint(e.Elems), 2000))
			}
		},
	})
}
