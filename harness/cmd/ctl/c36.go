package main

import (
	"encoding/json"
	"fmt"
	"math/rand"
	"reflect"
	"strconv"
	"strings"

	"verif/proto"
)

// genJSON builds a random JSON value; strings come from strAlpha
// jsonBigNumbers adds whole numbers at and beyond the 64-bit integer range to genJSONValue (C36 only)
var jsonBigNumbers bool

var jsonBig = []float64{9223372036854775807, 9223372036854775808, -9223372036854775808, -9223372036854775809, 18446744073709551615, 18446744073709551616, 1e19, 1e20, 123456789012345678901234, 4611686018427387904, 9007199254740993}

func genJSONValue(r *rand.Rand, depth int, nodes *int, strGen func(*rand.Rand) string, allowNull bool) any {
	*nodes--
	k := r.Intn(12)
	if depth <= 0 || *nodes <= 0 {
		k = r.Intn(8)
	}
	switch {
	case k < 3:
		return strGen(r)
	case k < 5:
		if jsonBigNumbers && r.Intn(8) == 0 {
			return jsonBig[r.Intn(len(jsonBig))]
		}
		switch r.Intn(6) {
		case 0:
			return float64(0)
		case 1:
			return float64(r.Intn(2000) - 1000)
		case 2:
			return float64(r.Intn(1000000)) / 1000
		case 3:
			return float64(r.Int63n(1 << 50))
		case 4:
			return -float64(r.Intn(100)) / 8
		default:
			return float64(r.Intn(10))
		}
	case k < 6:
		return r.Intn(2) == 0
	case k < 7:
		if allowNull {
			return nil
		}
		return strGen(r)
	case k < 8:
		return strGen(r)
	case k < 10:
		n := r.Intn(5)
		arr := make([]any, 0, n)
		for i := 0; i < n; i++ {
			arr = append(arr, genJSONValue(r, depth-1, nodes, strGen, allowNull))
		}
		return arr
	default:
		n := r.Intn(5)
		m := map[string]any{}
		for i := 0; i < n; i++ {
			m[fmt.Sprintf("k%d%s", i, strGen(r))] = genJSONValue(r, depth-1, nodes, strGen, allowNull)
		}
		return m
	}
}

func c36Str(r *rand.Rand) string {
	alpha := []string{"a", "b", "Z", "0", "9", " ", "  ", "é", "日", "😀", "-", "_", ".", ",", ":", ";", "#", "'", "[", "]", "{", "}", "<", ">", "|", "&", "*", "?", "!", "=", "%", "@", "/", "true", "null", "1e3"}
	n := r.Intn(5)
	s := ""
	for i := 0; i < n; i++ {
		s += alpha[r.Intn(len(alpha))]
	}
	return s
}

// printJSON renders strict JSON with random whitespace / newlines
func printJSON(r *rand.Rand, v any, b *strings.Builder) {
	ws := func() {
		switch r.Intn(6) {
		case 0:
			b.WriteString(" ")
		case 1:
			b.WriteString("\n  ")
		case 2:
			b.WriteString("  ")
		}
	}
	switch t := v.(type) {
	case nil:
		b.WriteString("null")
	case bool:
		b.WriteString(strconv.FormatBool(t))
	case float64:
		// every JSON number syntax: plain decimal, exponent notation (e / E, signed exponent)
		switch r.Intn(8) {
		case 0:
			b.WriteString(strconv.FormatFloat(t, 'e', -1, 64))
		case 1:
			b.WriteString(strings.ToUpper(strconv.FormatFloat(t, 'e', -1, 64)))
		case 2:
			b.WriteString(strings.Replace(strconv.FormatFloat(t, 'e', -1, 64), "e+", "e", 1))
		case 3:
			b.WriteString(strconv.FormatFloat(t, 'g', -1, 64))
		default:
			b.WriteString(strconv.FormatFloat(t, 'f', -1, 64))
		}
	case string:
		q, _ := json.Marshal(t)
		// json.Marshal escapes <, >, & as \u00XX: keep them literal (no murex escapes wanted)
		s := string(q)
		s = strings.NewReplacer("\\u003c", "<", "\\u003e", ">", "\\u0026", "&").Replace(s)
		b.WriteString(s)
	case []any:
		b.WriteString("[")
		for i, e := range t {
			if i > 0 {
				b.WriteString(",")
			}
			ws()
			printJSON(r, e, b)
			ws()
		}
		b.WriteString("]")
	case map[string]any:
		b.WriteString("{")
		i := 0
		for _, k := range sortedKeys(t) {
			if i > 0 {
				b.WriteString(",")
			}
			i++
			ws()
			printJSON(r, k, b)
			ws()
			b.WriteString(":")
			ws()
			printJSON(r, t[k], b)
			ws()
		}
		b.WriteString("}")
	}
}

func sortedKeys(m map[string]any) []string {
	var ks []string
	for k := range m {
		ks = append(ks, k)
	}
	for i := range ks {
		for j := i + 1; j < len(ks); j++ {
			if ks[j] < ks[i] {
				ks[i], ks[j] = ks[j], ks[i]
			}
		}
	}
	return ks
}

type c36Expect struct {
	Text string `json:"text"`
	Sep  string `json:"sep"`
	Deep int    `json:"deep"`
}

func jsonDepth(v any) int {
	switch t := v.(type) {
	case []any:
		d := 0
		for _, e := range t {
			if x := jsonDepth(e); x > d {
				d = x
			}
		}
		return d + 1
	case map[string]any:
		d := 0
		for _, e := range t {
			if x := jsonDepth(e); x > d {
				d = x
			}
		}
		return d + 1
	}
	return 0
}

func init() {
	register(&Property{
		ID:    "C36",
		Level: "exploration",
		Rule: "random JSON arrays and objects (depth <= 5, <= 40 nodes; strings over letters, digits, spaces, punctuation and non-ASCII but without backslash, $, ~, parentheses and double quote; finite numbers, in a third of the documents also whole numbers at and beyond the 64-bit integer range (2^63 - 1, 2^63, 2^64, 1e19, 1e20, 24 digits ...); booleans; null) printed as strict JSON with random whitespace and newlines and used as `v = %[..]` / `v = %{..}` (variable read back through the API) and as an inline argument (function $PARAMS); " +
			"oracle: encoding/json decode of murex's value deep-equals the decode of the source text; non-trivial = nesting depth >= 2 or a string with punctuation; distinct by source text",
		Assumptions: []string{"murex extensions inside the literals (barewords, ranges, variables, comments) are not generated, only strict JSON text", "numbers are compared as float64"},
		Run: func(x *Ctx) {
			pool := x.NewPool(false)
			n := x.Pick(3000, 100000)
			var cases []*proto.Case
			for i := 0; i < n; i++ {
				r := x.Rng("doc", i)
				nodes := 40
				var v any
				jsonBigNumbers = i%3 == 0
				if r.Intn(2) == 0 {
					arr := []any{}
					for k := r.Intn(6); k > 0; k-- {
						arr = append(arr, genJSONValue(r, 4, &nodes, c36Str, true))
					}
					v = arr
				} else {
					m := map[string]any{}
					for k := r.Intn(6); k > 0; k-- {
						m[fmt.Sprintf("key%d%s", k, c36Str(r))] = genJSONValue(r, 4, &nodes, c36Str, true)
					}
					v = m
				}
				jsonBigNumbers = false
				var b strings.Builder
				printJSON(r, v, &b)
				text := b.String()
				sep := fmt.Sprintf("\x1eSEP%d-%d\x1e", x.Seed, i)
				exp, _ := json.Marshal(c36Expect{Text: text, Sep: sep, Deep: jsonDepth(v)})
				block := "function c36pf { out $PARAMS }\nc36v = %" + text + "\nc36pf %" + text + "\n"
				cases = append(cases, &proto.Case{ID: fmt.Sprintf("c36-%d", i), Op: "prog", Block: block, ReadVars: []string{"c36v"}, Expect: exp, TimeoutMs: 30000})
			}
			x.RunAll(pool, cases)
		},
		Check: func(x *Ctx, c *proto.Case, r *proto.Result) {
			if x.Bad(c, r) {
				return
			}
			var e c36Expect
			json.Unmarshal(c.Expect, &e)
			run := r.Runs[0]
			var want any
			if err := json.Unmarshal([]byte(e.Text), &want); err != nil {
				x.Inconclusive("generator emitted invalid JSON")
				return
			}
			if e.Deep >= 2 || strings.ContainsAny(e.Text, "#;|&<>{}[]'") {
				x.Nontrivial(e.Text)
			}
			if len(e.Text) < 120 && e.Deep >= 2 {
				x.Sample(map[string]any{"literal": "%" + e.Text})
			}
			kind := "array"
			if strings.HasPrefix(e.Text, "{") {
				kind = "object"
			}
			// expression position
			var got any
			vs, has := run.Vars["c36v"]
			if !has || json.Unmarshal([]byte(vs), &got) != nil || !reflect.DeepEqual(got, want) {
				x.Viol("literal:"+kind+":expression", fmt.Sprintf("`v = %%%s` built %q (set=%v err=%q), JSON says %s; stderr=%q", e.Text, trunc(vs, 400), has, run.VarErrs["c36v"], trunc(mustJSON(want), 400), trunc(string(run.Stderr), 300)), c, vs, want)
				return
			}
			// inline argument: $PARAMS is a JSON array of one string holding JSON
			var params []string
			if json.Unmarshal(run.Stdout, &params) != nil || len(params) != 1 {
				x.Viol("literal:"+kind+":argument-shape", fmt.Sprintf("`f %%%s` gave parameters %q; stderr=%q", e.Text, trunc(string(run.Stdout), 400), trunc(string(run.Stderr), 300)), c, string(run.Stdout), "one parameter")
				return
			}
			var got2 any
			if json.Unmarshal([]byte(params[0]), &got2) != nil || !reflect.DeepEqual(got2, want) {
				x.Viol("literal:"+kind+":argument", fmt.Sprintf("`f %%%s` passed %q, JSON says %s", e.Text, trunc(params[0], 400), trunc(mustJSON(want), 400)), c, params[0], want)
			}
		},
	})
}

func mustJSON(v any) string {
	b, _ := json.Marshal(v)
	return string(b)
}
