package main

import (
	"context"
	"fmt"
	"os"
	"os/exec"
	"path/filepath"
	"regexp"
	"strconv"
	"strings"
	"time"
)

// Native coverage-guided fuzzing (go test -fuzz) of harness/fuzz, count-bounded.
// The test binary is rebuilt from /repo's working tree, seeded with generated
// inputs plus the committed corpus (/verif/corpus/<target>), and run in a
// scratch directory. A failing input comes back as text; the caller classifies it.

type fuzzOutcome struct {
	Execs     int64
	NewInputs int64
	Failed    bool
	Input     string // the failing input, when it could be recovered
	Output    string // tail of the fuzzer's output
	TimedOut  bool
}

var fuzzProgressRx = regexp.MustCompile(`execs: (\d+) .*\(total: (\d+)\)`)

func (x *Ctx) nativeFuzz(target string, execs int, seeds []string) (*fuzzOutcome, error) {
	bin := filepath.Join(verifRoot, "bin", "fuzz-"+target+".test")
	os.MkdirAll(filepath.Dir(bin), 0755)
	unlock := flock(bin + ".lock")
	tmp := fmt.Sprintf("%s.tmp%d", bin, os.Getpid())
	cmd := exec.Command("go", "test", "-tags", "verif", "-c", "-fuzz=^"+target+"$", "-o", tmp, "./fuzz/")
	cmd.Dir = filepath.Join(verifRoot, "harness")
	cmd.Env = goEnv()
	b, err := cmd.CombinedOutput()
	if err == nil {
		err = os.Rename(tmp, bin)
	}
	unlock()
	if err != nil {
		os.Remove(tmp)
		return nil, fmt.Errorf("building the fuzz binary: %v\n%s", err, b)
	}

	dir := filepath.Join(x.scratch, "fuzz-"+target)
	seedDir := filepath.Join(dir, "testdata", "fuzz", target)
	cacheDir := filepath.Join(dir, "cache")
	os.MkdirAll(seedDir, 0755)
	os.MkdirAll(filepath.Join(cacheDir, target), 0755)
	for i, s := range seeds {
		os.WriteFile(filepath.Join(seedDir, fmt.Sprintf("seed-%d", i)), []byte("go test fuzz v1\nstring("+strconv.Quote(s)+")\n"), 0644)
	}
	// committed corpus: inputs that reached new coverage in earlier runs
	if ents, err := os.ReadDir(filepath.Join(verifRoot, "corpus", target)); err == nil {
		for _, e := range ents {
			if b, err := os.ReadFile(filepath.Join(verifRoot, "corpus", target, e.Name())); err == nil {
				os.WriteFile(filepath.Join(cacheDir, target, e.Name()), b, 0644)
			}
		}
	}

	ctx, cancel := context.WithTimeout(context.Background(), time.Duration(x.Pick(20, 240))*time.Minute)
	defer cancel()
	run := exec.CommandContext(ctx, bin, "-test.run=^$", "-test.fuzz=^"+target+"$", fmt.Sprintf("-test.fuzztime=%dx", execs),
		"-test.fuzzcachedir="+cacheDir, fmt.Sprintf("-test.parallel=%d", x.N))
	run.Dir = dir
	run.Env = append(os.Environ(), "HOME="+dir, "TMPDIR="+dir)
	out, runErr := run.CombinedOutput()
	o := &fuzzOutcome{Output: string(out)}
	if len(o.Output) > 6000 {
		o.Output = o.Output[len(o.Output)-6000:]
	}
	for _, m := range fuzzProgressRx.FindAllStringSubmatch(string(out), -1) {
		o.Execs, _ = strconv.ParseInt(m[1], 10, 64)
		o.NewInputs, _ = strconv.ParseInt(m[2], 10, 64)
	}
	if ctx.Err() != nil {
		o.TimedOut = true
		return o, nil
	}
	if dst := os.Getenv("VERIF_SAVE_CORPUS"); dst != "" {
		// maintenance: keep what this run discovered (tools/update_corpus.sh)
		os.MkdirAll(filepath.Join(dst, target), 0755)
		if ents, err := os.ReadDir(filepath.Join(cacheDir, target)); err == nil {
			for _, e := range ents {
				if b, err := os.ReadFile(filepath.Join(cacheDir, target, e.Name())); err == nil {
					os.WriteFile(filepath.Join(dst, target, e.Name()), b, 0644)
				}
			}
		}
	}
	if runErr == nil {
		return o, nil
	}
	o.Failed = true
	// the failing input is written next to the seeds
	if ents, err := os.ReadDir(seedDir); err == nil {
		for _, e := range ents {
			if strings.HasPrefix(e.Name(), "seed-") {
				continue
			}
			b, _ := os.ReadFile(filepath.Join(seedDir, e.Name()))
			lines := strings.SplitN(string(b), "\n", 3)
			if len(lines) >= 2 && strings.HasPrefix(lines[1], "string(") {
				if s, err := strconv.Unquote(strings.TrimSuffix(strings.TrimPrefix(lines[1], "string("), ")")); err == nil {
					o.Input = s
				}
			}
		}
	}
	if o.Input == "" {
		// a seed itself failed: `--- FAIL: FuzzX/seed-12`
		if m := regexp.MustCompile(`FAIL: \w+/seed-(\d+)`).FindStringSubmatch(string(out)); m != nil {
			if i, err := strconv.Atoi(m[1]); err == nil && i < len(seeds) {
				o.Input = seeds[i]
			}
		}
	}
	if o.Input == "" {
		// or the failure message quotes the input
		if m := regexp.MustCompile(`(?s)(?:on|highlighting) "((?:[^"\\]|\\.)*)"`).FindStringSubmatch(string(out)); m != nil {
			if s, err := strconv.Unquote(`"` + m[1] + `"`); err == nil {
				o.Input = s
			}
		}
	}
	return o, nil
}
