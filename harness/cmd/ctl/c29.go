package main

import (
	"encoding/json"
	"fmt"
	"math/rand"
	"strings"

	"verif/proto"
)

type c29Args struct {
	Before  [][]string `json:"before"`
	After   [][]string `json:"after"`
	Seed    int64      `json:"seed"`
	MaxTorn int        `json:"max_torn"`
}

type c29State struct {
	Off     int64    `json:"off"`
	Rel     int64    `json:"rel"`
	Line    int64    `json:"line"`
	List    []int    `json:"list"`
	Unknown []string `json:"unknown,omitempty"`
}

type c29Out struct {
	States []c29State `json:"states"`
	Start  int64      `json:"start"`
	End    int64      `json:"end"`
	Err    string     `json:"err,omitempty"`
}

func c29Command(r *rand.Rand, uniq int, long bool) string {
	words := []string{"out", "echo", "ls -la", "git commit -m", "é日本", "😀", "| grep x", "-> foreach i { out $i }", "\"quoted \\\" text\"", "'single'", "{ block }", "# comment", "a=1", "\\", "\t", "%[1,2,3]", "\x1b[31mred\x1b[0m", "\x01", "\x7f", "\x07bell", "\U000E0001tag", "\x0b"}
	var b strings.Builder
	fmt.Fprintf(&b, "cmd%d", uniq)
	n := 1 + r.Intn(6)
	for i := 0; i < n; i++ {
		b.WriteString(" " + words[r.Intn(len(words))])
		if r.Intn(8) == 0 {
			b.WriteString("\n  ") // multi-line command
		}
	}
	if long {
		sizes := []int{65535, 65536, 65537, 70000, 131072, 200 * 1024, 66000, 64 * 1024 * 2 + 7}
		target := sizes[r.Intn(len(sizes))]
		for b.Len() < target {
			b.WriteString(" " + words[r.Intn(len(words))] + " xxxxxxxxxxxxxxxxxxxxxxxxxxxxxxxxxxxxxxxxxxxxxxxxxxxxxxxxxxxxxxxx")
		}
	}
	return strings.TrimSpace(b.String())
}

func collapse(l []int) []int {
	var out []int
	for i, v := range l {
		if i > 0 && l[i-1] == v {
			continue
		}
		out = append(out, v)
	}
	return out
}

func sameInts(a, b []int) bool {
	if len(a) != len(b) {
		return false
	}
	for i := range a {
		if a[i] != b[i] {
			return false
		}
	}
	return true
}

func init() {
	register(&Property{
		ID:    "C29",
		Level: "fault_enumeration",
		Rule: "PRNG histories of 1-20 commands (multi-line, quotes, backslashes, tabs, non-ASCII, consecutive duplicates, a share of commands of 65 535 / 65 536 / 65 537 bytes up to 200 KiB) recorded by one or more sessions through history.New/Write; crash points = the file truncated at EVERY byte offset of the last append when that line is <= 4 KiB, otherwise at PRNG offsets plus every offset within +-32 bytes of each 64 KiB multiple and both ends; after each truncation 1-3 further sessions append more commands and a fresh session reloads the file; " +
			"oracle: after collapsing consecutive duplicates the reloaded list is the written list minus at most the torn entry — every entry before and after it present, in order, full text, and no text that was never recorded; non-trivial = a torn state strictly inside the last line; distinct by (history, offset)",
		Assumptions: []string{"a crash is simulated by truncating the file at a byte offset (the write is a single append of one line)", "commands carry no leading/trailing whitespace (Write trims it)"},
		Technique:   "runtime monitoring with fault enumeration: every truncation point of the last append, followed by further sessions and a reload compared with the recorded history",
		Run: func(x *Ctx) {
			pool := x.NewPool(false)
			n := x.Pick(160, 1500)
			var cases []*proto.Case
			for i := 0; i < n; i++ {
				r := x.Rng("hist", i)
				uniq := 0
				mk := func(long bool) string { uniq++; return c29Command(r, uniq, long) }
				var a c29Args
				a.Seed, a.MaxTorn = r.Int63(), x.Pick(120, 512)
				ncmd := 1 + r.Intn(20)
				nsess := 1 + r.Intn(3)
				a.Before = make([][]string, nsess)
				var prev string
				for k := 0; k < ncmd; k++ {
					s := k * nsess / ncmd
					cmd := mk(i%5 == 0 && r.Intn(6) == 0)
					if prev != "" && r.Intn(7) == 0 {
						cmd = prev // consecutive duplicate
					}
					prev = cmd
					a.Before[s] = append(a.Before[s], cmd)
				}
				// sessions must not be empty
				var nb [][]string
				for _, s := range a.Before {
					if len(s) > 0 {
						nb = append(nb, s)
					}
				}
				a.Before = nb
				// the torn write: sometimes a long line
				if i%4 == 0 {
					last := a.Before[len(a.Before)-1]
					last[len(last)-1] = mk(true)
				}
				for s := 1 + r.Intn(3); s > 0; s-- {
					var sess []string
					for k := 1 + r.Intn(3); k > 0; k-- {
						sess = append(sess, mk(i%7 == 0 && r.Intn(5) == 0))
					}
					a.After = append(a.After, sess)
				}
				args, _ := json.Marshal(a)
				cases = append(cases, &proto.Case{ID: fmt.Sprintf("c29-%d", i), Op: "c29.torn", Args: args, TimeoutMs: 300000})
			}
			x.RunAll(pool, cases)
		},
		Check: func(x *Ctx, c *proto.Case, r *proto.Result) {
			if x.Bad(c, r) {
				return
			}
			var a c29Args
			var o c29Out
			json.Unmarshal(c.Args, &a)
			if err := json.Unmarshal(r.Out, &o); err != nil {
				x.Inconclusive("malformed c29 result")
				return
			}
			if o.Err != "" {
				x.Viol("history:write-error", "history.Write returned an error: "+o.Err, c, o.Err, "no error")
				return
			}
			// positions and first-position ids
			first := map[string]int{}
			var ids []int
			pos := 0
			nBefore := 0
			for si, sess := range append(append([][]string{}, a.Before...), a.After...) {
				for _, cmd := range sess {
					if _, ok := first[cmd]; !ok {
						first[cmd] = pos
					}
					ids = append(ids, first[cmd])
					pos++
					if si < len(a.Before) {
						nBefore++
					}
				}
			}
			torn := nBefore - 1
			var withTorn, withoutTorn []int
			withTorn = collapse(ids)
			withoutTorn = collapse(append(append([]int{}, ids[:torn]...), ids[torn+1:]...))
			x.Eval(len(o.States) - 1)
			x.Count("torn_states", int64(len(o.States)))
			x.Count("histories", 1)
			longLine := o.End-o.Start > 65536
			if longLine {
				x.Count("histories_with_last_line_over_64KiB", 1)
			}
			sampled := false
			for _, st := range o.States {
				inside := st.Rel > 0 && st.Rel < st.Line
				if inside {
					x.Nontrivial(fmt.Sprintf("%s@%d", c.ID, st.Off))
				}
				got := collapse(st.List)
				complete := st.Rel == st.Line
				ok := false
				switch {
				case complete:
					ok = sameInts(got, withTorn)
				case st.Rel == 0:
					ok = sameInts(got, withoutTorn)
				default:
					ok = sameInts(got, withoutTorn) || sameInts(got, withTorn)
				}
				if !sampled && inside && len(ids) < 8 && !longLine {
					sampled = true
					x.Sample(map[string]any{"sessions_before": a.Before, "sessions_after": a.After, "truncated_to": st.Off, "bytes_of_last_line_kept": st.Rel, "reloaded_command_positions": st.List})
				}
				if !ok {
					// classify
					sig := "entries-lost"
					gotSet := map[int]bool{}
					for _, g := range got {
						gotSet[g] = true
					}
					lostBefore, lostAfter := false, false
					for k, id := range ids {
						if k == torn || gotSet[id] {
							continue
						}
						if k < torn {
							lostBefore = true
						} else {
							lostAfter = true
						}
					}
					switch {
					case len(st.Unknown) > 0:
						sig = "foreign-entry"
					case lostBefore && lostAfter:
						sig = "entries-lost-before-and-after-the-torn-one"
					case lostBefore:
						sig = "entries-lost-before-the-torn-one"
					case lostAfter:
						sig = "entries-lost-after-the-torn-one"
					default:
						sig = "order-or-duplication"
					}
					if longLine {
						sig += ":line-over-64KiB"
					}
					single := *c
					x.Viol("history:"+sig, fmt.Sprintf("file truncated to %d bytes (%d of %d bytes of the last line kept), then %d more sessions: a new session loads command positions %v (unknown texts %q); recorded positions are %v with the torn write at %d", st.Off, st.Rel, st.Line, len(a.After), st.List, st.Unknown, ids, torn), &single, st.List, ids)
					return
				}
			}
		},
	})
}
