package main

import (
	"encoding/json"
	"fmt"
	"strings"

	"verif/proto"
)

type c21Expect struct {
	Form   string `json:"form"`
	Kind   string `json:"kind"` // exit | sig
	N      int    `json:"n"`
	Failed bool   `json:"failed"` // the helper ended with a non-zero status or by a signal
}

var c21Signals = map[int]string{1: "HUP", 2: "INT", 3: "QUIT", 4: "ILL", 5: "TRAP", 6: "ABRT", 7: "BUS", 8: "FPE", 9: "KILL", 10: "USR1", 11: "SEGV", 12: "USR2", 13: "PIPE", 14: "ALRM", 15: "TERM", 16: "STKFLT", 24: "XCPU", 25: "XFSZ", 26: "VTALRM", 27: "PROF", 29: "IO", 30: "PWR", 31: "SYS", 34: "RTMIN", 35: "RTMIN+1", 50: "RTMIN+16", 64: "RTMAX"}

var c21Forms = []struct{ Name, Tmpl string }{
	{"alone", "%s"},
	{"and", "%s && out c21ran"},
	{"or", "%s || out c21alt"},
	{"try", "try { %s; out c21after }"},
	{"pipeline-tail", "out x | %s"},
	{"trypipe-head", "trypipe { %s | exitsig exit 0 piped; out c21after }"},
	{"after-semicolon-exitnum", "%s; exitnum"},
	{"function", "function c21f { %s }\nc21f && out c21ran\n!function c21f"},
	{"if-condition", "if { %s yes } then { out c21then } else { out c21else }"},
}

func init() {
	register(&Property{
		ID:    "C21",
		Level: "exploration",
		Rule: "exhaustive: a helper process (`exitsig`, built at setup) that exits with every status 0-255 that exits with status 0 / 3 / 130 while a grandchild keeps its stdout and stderr open for two more seconds, and that kills itself with each of 27 terminating signals (HUP INT QUIT ILL TRAP ABRT BUS FPE KILL USR1 SEGV USR2 PIPE ALRM TERM STKFLT XCPU XFSZ VTALRM PROF IO PWR SYS and four real-time signals), each used in 9 program shapes: alone, `h && out`, `h || out`, `try { h; out }`, as the tail of a pipeline, as the head of a trypipe pipeline, `h; exitnum`, inside a function followed by &&, and as an `if` condition; " +
			"oracle: exit N => the block's exit number / `exitnum` output is N and the successor runs exactly when N = 0; signal => exit number is not 0, the && / try / trypipe / then successor does not run and the || / else one does; non-trivial = every case with N != 0 or a signal; distinct by (outcome, shape)",
		Assumptions: []string{"core dumps are disabled in the helper (RLIMIT_CORE 0)", "the helper is found through the workers' private PATH"},
		Technique:   "runtime monitoring: exhaustive enumeration of child exit statuses and terminating signals through real process spawns, observed at the program boundary",
		Run: func(x *Ctx) {
			pool := x.NewPool(false)
			var cases []*proto.Case
			add := func(kind string, n int) {
				cmd := fmt.Sprintf("exitsig %s %d", kind, n)
				for _, f := range c21Forms {
					if x.Quick() && kind == "exit" && n > 3 && n%5 != 0 && n < 250 && f.Name != "alone" && f.Name != "and" {
						continue // quick tier: all codes alone and with &&, every fifth code in the other shapes
					}
					e := c21Expect{Form: f.Name, Kind: kind, N: n, Failed: kind == "sig" || n != 0}
					if kind == "linger" {
						e.Kind = "exit" // judged like a plain exit with that status
					}
					exp, _ := json.Marshal(e)
					cases = append(cases, &proto.Case{ID: fmt.Sprintf("c21-%s-%d-%s", kind, n, f.Name), Op: "prog", Block: fmt.Sprintf(f.Tmpl, cmd), Expect: exp, TimeoutMs: 60000})
				}
			}
			for n := 0; n < 256; n++ {
				add("exit", n)
			}
			for s := range c21Signals {
				add("sig", s)
			}
			// the helper exits at once while a grandchild keeps the inherited stdout / stderr open for 2 s
			for _, n := range []int{0, 3, 130} {
				add("linger", n)
			}
			x.RunAll(pool, cases)
		},
		Check: func(x *Ctx, c *proto.Case, r *proto.Result) {
			if x.Bad(c, r) {
				return
			}
			var e c21Expect
			json.Unmarshal(c.Expect, &e)
			run := r.Runs[0]
			out := string(run.Stdout)
			what := fmt.Sprintf("exit status %d", e.N)
			cls := fmt.Sprintf("exit:%d", e.N)
			if e.Kind == "sig" {
				what = fmt.Sprintf("signal %d (SIG%s)", e.N, c21Signals[e.N])
				cls = "signal"
			}
			if e.Failed {
				x.Nontrivial(c.ID)
			}
			if e.Form == "and" && e.Kind == "sig" && e.N == 9 {
				x.Sample(map[string]any{"program": c.Block, "helper_ends_with": what, "stdout": out, "exit_number": run.Exit})
			}
			x.SetAdd("outcomes", fmt.Sprintf("%s-%d", e.Kind, e.N))
			fail := func(why string) {
				x.Viol(fmt.Sprintf("%s:%s", cls, e.Form), fmt.Sprintf("program %q, helper ends with %s: %s (stdout %q, exit number %d, stderr %q)", c.Block, what, why, out, run.Exit, trunc(string(run.Stderr), 200)), c, map[string]any{"stdout": out, "exit": run.Exit}, what)
			}
			has := func(s string) bool { return strings.Contains(out, s) }
			switch e.Form {
			case "alone", "pipeline-tail":
				if e.Kind == "exit" && run.Exit != e.N {
					fail(fmt.Sprintf("the block's exit number is %d", run.Exit))
				}
				if e.Kind == "sig" && run.Exit == 0 {
					fail("the block's exit number is 0")
				}
			case "and", "function":
				if has("c21ran") == e.Failed {
					fail(fmt.Sprintf("the && successor ran = %v", has("c21ran")))
				}
			case "or":
				if has("c21alt") != e.Failed {
					fail(fmt.Sprintf("the || successor ran = %v", has("c21alt")))
				}
			case "try", "trypipe-head":
				if has("c21after") == e.Failed {
					fail(fmt.Sprintf("the command after it inside the try block ran = %v", has("c21after")))
				}
			case "after-semicolon-exitnum":
				got := strings.TrimSpace(out)
				if e.Kind == "exit" && got != fmt.Sprint(e.N) {
					fail("exitnum printed " + got)
				}
				if e.Kind == "sig" && (got == "0" || got == "") {
					fail("exitnum printed " + got)
				}
			case "if-condition":
				if has("c21then") == e.Failed || has("c21else") != e.Failed {
					fail(fmt.Sprintf("then ran = %v, else ran = %v", has("c21then"), has("c21else")))
				}
			}
		},
	})
}
