package main

import (
	"encoding/json"
	"fmt"
	"math/rand"
	"strings"

	"verif/proto"
)

type scOp struct {
	Kind string // setl setg unl ung rd rdg call if foreach sub
	Name string
	Val  string
	Form int
	Tag  string
	Fn   int
	Body []*scOp
}

type scGen struct {
	r      *rand.Rand
	names  []string
	nval   int
	ntag   int
	budget int
}

// val draws from a tiny shared pool most of the time, so that a local and a
// global often hold the same value (equal values must still be distinct bindings)
func (g *scGen) val(prefix string) string {
	if g.r.Intn(3) != 0 {
		return []string{"p", "q", "r"}[g.r.Intn(3)]
	}
	g.nval++
	return fmt.Sprintf("%s%d", prefix, g.nval)
}

func (g *scGen) ops(depth int, fnLevel int, nfn int, inSub bool) []*scOp {
	n := 2 + g.r.Intn(6)
	var out []*scOp
	for i := 0; i < n && g.budget > 0; i++ {
		g.budget--
		name := g.names[g.r.Intn(len(g.names))]
		k := g.r.Intn(100)
		switch {
		case k < 20:
			out = append(out, &scOp{Kind: "setl", Name: name, Val: g.val("l"), Form: g.r.Intn(3)})
		case k < 33:
			out = append(out, &scOp{Kind: "setg", Name: name, Val: g.val("g"), Form: g.r.Intn(2)})
		case k < 40:
			out = append(out, &scOp{Kind: "unl", Name: name})
		case k < 45:
			out = append(out, &scOp{Kind: "ung", Name: name})
		case k < 68 && !inSub:
			g.ntag++
			out = append(out, &scOp{Kind: "rd", Name: name, Tag: fmt.Sprintf("r%d", g.ntag)})
		case k < 76 && !inSub:
			g.ntag++
			out = append(out, &scOp{Kind: "rdg", Name: name, Tag: fmt.Sprintf("r%d", g.ntag)})
		case k < 86 && fnLevel < nfn && !inSub:
			out = append(out, &scOp{Kind: "call", Fn: fnLevel + 1 + g.r.Intn(nfn-fnLevel)})
		case k < 91 && depth > 0:
			out = append(out, &scOp{Kind: "if", Body: g.ops(depth-1, fnLevel, nfn, inSub)})
		case k < 96 && depth > 0:
			out = append(out, &scOp{Kind: "foreach", Body: g.ops(depth-1, fnLevel, nfn, inSub)})
		case depth > 0 && !inSub:
			g.ntag++
			out = append(out, &scOp{Kind: "sub", Tag: fmt.Sprintf("s%d", g.ntag), Body: g.ops(0, fnLevel, nfn, true)})
		default:
			g.ntag++
			if !inSub {
				out = append(out, &scOp{Kind: "rd", Name: name, Tag: fmt.Sprintf("r%d", g.ntag)})
			}
		}
	}
	return out
}

func scSrc(ops []*scOp, id string, ind string, b *strings.Builder) {
	for _, o := range ops {
		switch o.Kind {
		case "setl":
			switch o.Form {
			case 0:
				fmt.Fprintf(b, "%s%s = \"%s\"\n", ind, o.Name, o.Val)
			case 1:
				fmt.Fprintf(b, "%sset %s = %s\n", ind, o.Name, o.Val)
			default:
				fmt.Fprintf(b, "%sout %s -> set %s\n", ind, o.Val, o.Name)
			}
		case "setg":
			if o.Form == 0 {
				fmt.Fprintf(b, "%sglobal %s = %s\n", ind, o.Name, o.Val)
			} else {
				fmt.Fprintf(b, "%s$GLOBAL.%s = \"%s\"\n", ind, o.Name, o.Val)
			}
		case "unl":
			fmt.Fprintf(b, "%s!set %s\n", ind, o.Name)
		case "ung":
			fmt.Fprintf(b, "%s!global %s\n", ind, o.Name)
		case "rd":
			fmt.Fprintf(b, "%sout \"%s:$%s\"\n", ind, o.Tag, o.Name)
		case "rdg":
			fmt.Fprintf(b, "%sout \"%s:$GLOBAL.%s\"\n", ind, o.Tag, o.Name)
		case "call":
			fmt.Fprintf(b, "%sc11f%d_%s\n", ind, o.Fn, id)
		case "if":
			b.WriteString(ind + "if { true } then {\n")
			scSrc(o.Body, id, ind+"  ", b)
			b.WriteString(ind + "}\n")
		case "foreach":
			b.WriteString(ind + "a [1..1] -> foreach c11i {\n")
			scSrc(o.Body, id, ind+"  ", b)
			b.WriteString(ind + "}\n")
		case "sub":
			var sb strings.Builder
			scSrc(o.Body, id, "", &sb)
			inner := strings.ReplaceAll(strings.TrimSpace(sb.String()), "\n", "; ")
			if inner != "" {
				inner += "; "
			}
			fmt.Fprintf(b, "%sout \"%s:${ %sout done }\"\n", ind, o.Tag, inner)
		}
	}
}

type scModel struct {
	globals map[string]string
	fns     map[int][]*scOp
	out     strings.Builder
	errs    int
	shadow  int
	crossUn int
	steps   int
}

func (m *scModel) run(ops []*scOp, local map[string]string) {
	for _, o := range ops {
		m.steps++
		if m.steps > 600 {
			return
		}
		switch o.Kind {
		case "setl":
			if _, g := m.globals[o.Name]; g {
				m.shadow++
			}
			local[o.Name] = o.Val
		case "setg":
			m.globals[o.Name] = o.Val
		case "unl":
			if _, ok := local[o.Name]; ok {
				delete(local, o.Name)
				if _, g := m.globals[o.Name]; g {
					m.crossUn++
				}
			} else {
				m.errs++
			}
		case "ung":
			if _, ok := m.globals[o.Name]; ok {
				delete(m.globals, o.Name)
			} else {
				m.errs++
			}
		case "rd":
			if v, ok := local[o.Name]; ok {
				m.out.WriteString(o.Tag + ":" + v + "\n")
			} else if v, ok := m.globals[o.Name]; ok {
				m.out.WriteString(o.Tag + ":" + v + "\n")
			} else {
				m.errs++
			}
		case "rdg":
			if v, ok := m.globals[o.Name]; ok {
				m.out.WriteString(o.Tag + ":" + v + "\n")
			} else {
				m.errs++
			}
		case "call":
			m.run(m.fns[o.Fn], map[string]string{})
		case "if", "foreach":
			m.run(o.Body, local)
		case "sub":
			m.run(o.Body, local)
			m.out.WriteString(o.Tag + ":done\n")
		}
	}
}

type c11Expect struct {
	Stdout string `json:"stdout"`
	Errs   int    `json:"errs"`
	NT     bool   `json:"nt"`
	Src    string `json:"src"`
}

func genC11(r *rand.Rand, id string) (string, c11Expect, bool) {
	g := &scGen{r: r, budget: 40}
	for _, n := range []string{"a", "b", "c"} {
		g.names = append(g.names, "c11"+n+"_"+id)
	}
	nfn := r.Intn(4)
	m := &scModel{globals: map[string]string{}, fns: map[int][]*scOp{}}
	var src strings.Builder
	for f := nfn; f >= 1; f-- {
		body := g.ops(1, f, nfn, false)
		m.fns[f] = body
		fmt.Fprintf(&src, "function c11f%d_%s {\n", f, id)
		scSrc(body, id, "  ", &src)
		src.WriteString("}\n")
	}
	g.budget += 15
	mainOps := g.ops(2, 0, nfn, false)
	scSrc(mainOps, id, "", &src)
	// leave no globals behind in the worker
	for _, n := range g.names {
		fmt.Fprintf(&src, "!global %s\n", n)
	}
	m.run(mainOps, map[string]string{})
	if m.steps > 600 {
		return "", c11Expect{}, false
	}
	for _, n := range g.names {
		if _, ok := m.globals[n]; !ok {
			m.errs++
		}
	}
	return src.String(), c11Expect{Stdout: m.out.String(), Errs: m.errs, NT: m.shadow > 0 || m.crossUn > 0, Src: src.String()}, true
}

func init() {
	register(&Property{
		ID:    "C11",
		Level: "exploration",
		Rule: "PRNG programs of 5-55 operations over 3 names: local set (`x = \"v\"`, `set x = v`, `out v -> set x`), global set (`global x = v`, `$GLOBAL.x = \"v\"`), `!set`, `!global`, reads `$x` and `$GLOBAL.x`, spread over up to 3 functions calling each other (fresh scope per call), if / foreach bodies and ${...} sub-shells (same scope); compared with a scope-stack model (stdout exactly; stderr empty iff the model predicts no undefined read/unset); " +
			"non-trivial = a local shadows an existing global or a shadowing local is unset; distinct by program text",
		Assumptions: []string{"strict-vars is on (default): an undefined read is an error", "variable names are unique per case so environment variables never interfere", "bg / fexec / source / --parallel create function scopes by design and are not generated"},
		Run: func(x *Ctx) {
			pool := x.NewPool(false)
			n := x.Pick(2000, 60000)
			var cases []*proto.Case
			for i := 0; i < n; i++ {
				r := x.Rng("scope", i)
				id := fmt.Sprintf("%d_%d", x.Seed, i)
				src, e, ok := genC11(r, id)
				if !ok {
					continue
				}
				exp, _ := json.Marshal(e)
				cases = append(cases, &proto.Case{ID: "c11-" + id, Op: "prog", Block: src, Expect: exp, TimeoutMs: 30000})
			}
			x.RunAll(pool, cases)
		},
		Check: func(x *Ctx, c *proto.Case, r *proto.Result) {
			if x.Bad(c, r) {
				return
			}
			var e c11Expect
			json.Unmarshal(c.Expect, &e)
			run := r.Runs[0]
			if e.NT {
				x.Nontrivial(e.Src)
			}
			x.Count("expected_undefined_errors", int64(e.Errs))
			if e.NT && len(e.Src) < 700 {
				x.Sample(map[string]any{"program": e.Src, "stdout": e.Stdout, "expected_errors": e.Errs})
			}
			got := string(run.Stdout)
			stderr := string(run.Stderr)
			nerr := strings.Count(stderr, "Error in `")
			if got != e.Stdout {
				x.Viol("scope:stdout", fmt.Sprintf("program\n%s\ngave stdout=%q stderr=%q; scope model says stdout=%q with %d undefined-variable errors", e.Src, got, trunc(stderr, 400), e.Stdout, e.Errs), c, got, e.Stdout)
				return
			}
			if nerr != e.Errs {
				x.Viol("scope:errors", fmt.Sprintf("program\n%s\nreported %d errors on stderr, scope model expects %d undefined reads/unsets; stderr=%q", e.Src, nerr, e.Errs, trunc(stderr, 600)), c, nerr, e.Errs)
			}
		},
	})
}
