package main

import (
	"regexp"
	"encoding/json"
	"fmt"
	"hash/fnv"
	"math/rand"
	"os"
	"path/filepath"
	"sort"
	"strings"
	"sync"
	"time"

	"verif/proto"
)

// Violation is a refutation of the property by one observed execution
type Violation struct {
	Sig      string      `json:"signature"`
	Desc     string      `json:"desc"`
	Case     *proto.Case `json:"case,omitempty"`
	Observed any         `json:"observed,omitempty"`
	Expected any         `json:"expected,omitempty"`
}

// Ctx carries the state of one check run
type Ctx struct {
	P     *Property
	Tier  string
	Seed  uint64
	N     int
	start time.Time

	mu           sync.Mutex
	evaluations  int
	distinct     map[uint64]struct{}
	samples      []any
	counters     map[string]int64
	sets         map[string]map[string]struct{}
	viols        []Violation
	inconclusive map[string]int
	notes        []string
	isBroken     string
	rule         string
	hard         int

	pools      []*Pool
	scratch    string
	replayMode bool
	findings   []finding
}

func newCtx(p *Property, tier string, seed uint64, n int) *Ctx {
	x := &Ctx{P: p, Tier: tier, Seed: seed, N: n, start: time.Now(),
		distinct: map[uint64]struct{}{}, counters: map[string]int64{}, sets: map[string]map[string]struct{}{},
		inconclusive: map[string]int{}, rule: p.Rule}
	x.findings = loadFindings()
	dir, err := os.MkdirTemp("", "verif-"+p.ID+"-")
	if err != nil {
		panic(err)
	}
	x.scratch = dir
	return x
}

func (x *Ctx) cleanup() {
	if x.scratch != "" {
		os.RemoveAll(x.scratch)
	}
}

// Quick reports whether this is the quick tier
func (x *Ctx) Quick() bool { return x.Tier != "thorough" }

// Pick returns q in the quick tier and t in the thorough tier
func (x *Ctx) Pick(q, t int) int {
	if x.Quick() {
		return q
	}
	return t
}

func h64(parts ...string) uint64 {
	h := fnv.New64a()
	for _, p := range parts {
		h.Write([]byte(p))
		h.Write([]byte{0})
	}
	return h.Sum64()
}

// Rng derives an independent deterministic PRNG for (seed, property, label, i)
func (x *Ctx) Rng(label string, i int) *rand.Rand {
	s := h64(fmt.Sprint(x.Seed), x.P.ID, label, fmt.Sprint(i))
	return rand.New(rand.NewSource(int64(s)))
}

// NewPool creates a worker pool (building the worker from /repo first)
func (x *Ctx) NewPool(race bool) *Pool {
	p := &Pool{Bin: x.workerBin(race), N: x.N, Scratch: x.scratch}
	x.pools = append(x.pools, p)
	return p
}

// --- evidence accumulation -------------------------------------------------

// Eval counts executed cases
func (x *Ctx) Eval(n int) { x.mu.Lock(); x.evaluations += n; x.mu.Unlock() }

// Nontrivial records a distinct non-trivial case by its canonical key
func (x *Ctx) Nontrivial(key string) {
	x.mu.Lock()
	x.distinct[h64(key)] = struct{}{}
	x.mu.Unlock()
}

// Sample keeps up to 6 example cases for the evidence file
func (x *Ctx) Sample(v any) {
	x.mu.Lock()
	if len(x.samples) < 6 {
		x.samples = append(x.samples, v)
	}
	x.mu.Unlock()
}

// Count adds to a named coverage counter
func (x *Ctx) Count(key string, n int64) { x.mu.Lock(); x.counters[key] += n; x.mu.Unlock() }

// SetAdd adds a member to a named set whose cardinality is reported
func (x *Ctx) SetAdd(set, member string) {
	x.mu.Lock()
	m := x.sets[set]
	if m == nil {
		m = map[string]struct{}{}
		x.sets[set] = m
	}
	m[member] = struct{}{}
	x.mu.Unlock()
}

// Inconclusive counts an execution that decided nothing
func (x *Ctx) Inconclusive(reason string) {
	x.mu.Lock()
	x.inconclusive[reason]++
	x.mu.Unlock()
}

// Note adds free text to the evidence
func (x *Ctx) Note(s string) { x.mu.Lock(); x.notes = append(x.notes, s); x.mu.Unlock() }

func (x *Ctx) broken(msg string) {
	fmt.Printf("BROKEN property=%s %s\n", x.P.ID, msg)
	x.cleanup()
	os.Exit(2)
}

// Viol records a violation
func (x *Ctx) Viol(sig, desc string, c *proto.Case, observed, expected any) {
	x.mu.Lock()
	x.viols = append(x.viols, Violation{Sig: sig, Desc: desc, Case: c, Observed: observed, Expected: expected})
	x.mu.Unlock()
}

// Bad handles the outcomes common to every property: harness error, worker
// death, watchdog. It returns true when the result must not be examined
// further. A dead worker or a no-progress hang is a violation (the shell died
// or blocked while running murex code); a watchdog expiry with progress is
// inconclusive.
func (x *Ctx) Bad(c *proto.Case, r *proto.Result) bool {
	switch {
	case r.Error != "" && !r.TimedOut:
		x.Inconclusive("harness error: " + trunc(r.Error, 80))
		fmt.Printf("HARNESS-ERROR property=%s case=%s %s\n", x.P.ID, c.ID, trunc(r.Error, 300))
		x.mu.Lock()
		x.isBroken = "harness error: " + r.Error
		x.mu.Unlock()
		return true
	case r.Crash != "":
		x.hardFailure()
		x.Viol("crash:"+crashSignature(r.Crash+"\n"+r.OSErr), "worker process died while running the case: "+trunc(r.Crash, 200), c, map[string]any{"crash": r.Crash, "oserr": trunc(r.OSErr, 6000)}, "process survives")
		return true
	case r.TimedOut && r.NoProgress:
		x.hardFailure()
		x.Viol("hang:"+hangSignature(r.Dump), "case did not finish and made no progress over three samples", c, map[string]any{"dump": trunc(r.Dump, 8000)}, "case finishes")
		return true
	case r.TimedOut:
		x.hardFailure()
		x.Inconclusive("watchdog expired while progress was still observed")
		return true
	}
	return false
}

// hardFailure counts crashes and watchdog expiries; after 24 of them the
// remaining cases of the run are dropped (each costs a full watchdog period
// and the verdict is already decided)
func (x *Ctx) hardFailure() {
	x.mu.Lock()
	x.hard++
	n := x.hard
	x.mu.Unlock()
	if n == 24 {
		for _, p := range x.pools {
			p.Stop.Store(true)
		}
		fmt.Printf("NOTE property=%s 24 crashes/hangs observed: remaining cases are dropped\n", x.P.ID)
	}
}

func trunc(s string, n int) string {
	if len(s) <= n {
		return s
	}
	return s[:n] + "…"
}

// crashSignature reduces a Go crash report to "<class>@<innermost murex frame>"
func crashSignature(s string) string {
	class := "unknown"
	for _, line := range strings.Split(s, "\n") {
		l := strings.TrimSpace(line)
		switch {
		case strings.HasPrefix(l, "panic: "):
			class = classify(l[7:])
		case strings.HasPrefix(l, "fatal error: "):
			class = classify(l[13:])
		case strings.HasPrefix(l, "Error: ") && class == "unknown" && strings.Contains(s, "Murex has crashed"):
			class = classify(l[7:])
		case strings.HasPrefix(l, "[signal "):
			class = "signal " + strings.Fields(l[8:])[0]
		}
		if class != "unknown" && !strings.HasPrefix(l, "panic: ") && !strings.HasPrefix(l, "fatal error: ") {
			continue
		}
	}
	frame := murexFrame(s)
	return class + "@" + frame
}

func classify(msg string) string {
	m := msg
	for _, k := range []string{"index out of range", "slice bounds out of range", "nil pointer dereference", "concurrent map", "negative WaitGroup", "all goroutines are asleep", "invalid memory address", "close of closed channel", "send on closed channel", "interface conversion", "checkptr", "stack overflow", "out of memory", "makeslice"} {
		if strings.Contains(m, k) {
			return k
		}
	}
	if len(m) > 40 {
		m = m[:40]
	}
	return m
}

// murexFrame finds the first (innermost) github.com/lmorg/murex function in a
// stack text, without line numbers
func murexFrame(s string) string {
	for _, line := range strings.Split(s, "\n") {
		l := strings.TrimSpace(line)
		l = strings.TrimPrefix(l, "- function: ")
		if strings.HasPrefix(l, "github.com/lmorg/murex/") && !strings.Contains(l, "utils/crash") && !strings.Contains(l, "/verifhook") {
			if i := strings.Index(l, "("); i > 0 {
				// keep method receivers like (*T).M: cut at the argument list
				if j := strings.LastIndex(l, "("); j > 0 {
					l = l[:j]
				}
			}
			return strings.TrimPrefix(l, "github.com/lmorg/murex/")
		}
	}
	return "?"
}

func hangSignature(dump string) string {
	// the most frequent murex frame at the top of parked goroutines
	counts := map[string]int{}
	for _, g := range strings.Split(dump, "\n\n") {
		f := murexFrame(g)
		// the event listeners started by murex's init (file system, timer, signals) are always parked
		if f != "?" && !strings.HasPrefix(f, "builtins/events/") {
			counts[f]++
		}
	}
	best, n := "?", 0
	for f, c := range counts {
		if c > n || (c == n && f < best) {
			best, n = f, c
		}
	}
	return best
}

// --- run helpers -------------------------------------------------------------

// RunAll executes cases on a pool and applies the property's oracle
func (x *Ctx) RunAll(p *Pool, cases []*proto.Case) {
	p.Run(cases, func(c *proto.Case, r *proto.Result) {
		if r.TimedOut && !p.Stop.Load() {
			// A watchdog expiry is only believed if it happens again when the case runs alone in a
			// fresh worker: on a heavily loaded machine a starved worker also shows "no progress".
			// A hang that is a property of the code reproduces; one that does not is inconclusive.
			// It is re-run twice, each time alone in a fresh worker and with twice the time; the hang
			// verdict stands only if both re-runs expire as well.
			slow := *c
			slow.TimeoutMs = 2 * c.TimeoutMs
			var again *proto.Result
			for attempt := 0; attempt < 2; attempt++ {
				single := &Pool{Bin: p.Bin, N: 1, Scratch: filepath.Join(p.Scratch, fmt.Sprintf("retry%d-%s", attempt, c.ID)), ExtraEnv: p.ExtraEnv, PathPrefix: p.PathPrefix}
				again = nil
				single.Run([]*proto.Case{&slow}, func(_ *proto.Case, r2 *proto.Result) { again = r2 })
				if again == nil || !again.TimedOut {
					break
				}
			}
			if again != nil {
				if !again.TimedOut {
					x.Inconclusive("a case exceeded its watchdog and finished when it was re-run alone")
					x.Count("watchdog_expiries_not_reproduced", 1)
				}
				r = again // also when it hung again: the fresh worker's goroutine dump has no leftovers of earlier cases
			}
		}
		x.Eval(1)
		x.P.Check(x, c, r)
	})
}

// --- replay --------------------------------------------------------------------

type replayFile struct {
	Property  string      `json:"property"`
	Seed      uint64      `json:"seed"`
	Tier      string      `json:"tier"`
	Signature string      `json:"signature"`
	Desc      string      `json:"desc"`
	Case      *proto.Case `json:"case"`
	Observed  any         `json:"observed"`
	Expected  any         `json:"expected"`
	Race      bool        `json:"race,omitempty"`
}

func (x *Ctx) writeReplay(i int, v *Violation) string {
	dir := filepath.Join(verifRoot, "replays")
	os.MkdirAll(dir, 0755)
	path := filepath.Join(dir, fmt.Sprintf("%s-%d-%d.json", x.P.ID, x.Seed, i))
	rf := replayFile{Property: x.P.ID, Seed: x.Seed, Tier: x.Tier, Signature: v.Sig, Desc: v.Desc, Case: v.Case, Observed: v.Observed, Expected: v.Expected}
	b, _ := json.MarshalIndent(rf, "", " ")
	os.WriteFile(path, b, 0644)
	return path
}

func (x *Ctx) doReplay(path string) int {
	b, err := os.ReadFile(path)
	if err != nil {
		fmt.Println("cannot read replay:", err)
		return 2
	}
	var rf replayFile
	if err := json.Unmarshal(b, &rf); err != nil || rf.Case == nil {
		fmt.Println("replay file holds no case (violation was observed outside a worker case); desc:", rf.Desc)
		return 2
	}
	if x.P.Check == nil {
		fmt.Println("property has no per-case oracle; re-run the check with the same VERIF_SEED")
		return 2
	}
	pool := x.NewPool(rf.Race)
	pool.N = 1
	pool.Run([]*proto.Case{rf.Case}, func(c *proto.Case, r *proto.Result) {
		x.Eval(1)
		x.P.Check(x, c, r)
		rb, _ := json.MarshalIndent(r, "", " ")
		fmt.Printf("replayed case %s\nresult: %s\n", c.ID, trunc(string(rb), 4000))
	})
	if len(x.viols) == 0 {
		fmt.Println("replay: no violation reproduced")
		return 0
	}
	for _, v := range x.viols {
		fmt.Printf("replay: VIOLATION reproduced signature=%s %s\n", v.Sig, v.Desc)
	}
	return 1
}

// --- finish --------------------------------------------------------------------

func (x *Ctx) finish(wall time.Duration) int {
	x.mu.Lock()
	defer x.mu.Unlock()

	// classify violations against known findings
	knownSeen := map[string]int{}
	var unknown []Violation
	for _, v := range x.viols {
		matched := false
		for _, f := range x.findings {
			if f.Status == "open" && f.Property == x.P.ID && sigMatch(f.Signature, v.Sig) {
				knownSeen[f.Signature+"\x00"+f.What]++
				matched = true
				break
			}
		}
		if !matched {
			unknown = append(unknown, v)
		}
	}

	if dbg := os.Getenv("VERIF_DEBUG_VIOLS"); dbg != "" {
		if f, err := os.Create(dbg); err == nil {
			seenSig := map[string]int{}
			for _, v := range unknown {
				seenSig[v.Sig]++
				if seenSig[v.Sig] <= 3 {
					b, _ := json.Marshal(map[string]string{"sig": v.Sig, "desc": v.Desc})
					f.Write(append(b, '\n'))
				}
			}
			f.Close()
		}
	}

	// one replay per distinct unknown signature (max 10)
	sort.SliceStable(unknown, func(i, j int) bool { return unknown[i].Sig < unknown[j].Sig })
	type rep struct{ sig, path string }
	var reps []rep
	seen := map[string]bool{}
	for i := range unknown {
		if seen[unknown[i].Sig] || len(reps) >= 10 {
			continue
		}
		seen[unknown[i].Sig] = true
		reps = append(reps, rep{unknown[i].Sig, x.writeReplay(len(reps), &unknown[i])})
	}

	cov := map[string]any{
		"evaluations":         x.evaluations,
		"distinct_nontrivial": len(x.distinct),
		"rule":                x.rule,
		"samples":             x.samples,
	}
	for k, v := range x.counters {
		cov[k] = v
	}
	for k, v := range x.sets {
		cov["distinct_"+k] = len(v)
	}
	if len(x.inconclusive) > 0 {
		cov["inconclusive"] = x.inconclusive
	}
	if len(x.notes) > 0 {
		cov["notes"] = x.notes
	}
	var spawned, crashes int64
	for _, p := range x.pools {
		spawned += p.Spawned.Load()
		crashes += p.Crashes.Load()
	}
	var dropped int64
	for _, p := range x.pools {
		dropped += p.Dropped.Load()
	}
	if dropped > 0 {
		cov["cases_dropped_after_repeated_crashes_or_hangs"] = dropped
	}
	cov["worker_processes"] = spawned
	cov["worker_crashes"] = crashes
	if len(knownSeen) > 0 {
		ks := map[string]int{}
		for k, n := range knownSeen {
			ks[strings.SplitN(k, "\x00", 2)[0]] = n
		}
		cov["known_findings_observed"] = ks
	}
	if len(unknown) > 0 {
		sigs := map[string]int{}
		for _, v := range unknown {
			sigs[v.Sig]++
		}
		cov["violation_signatures"] = sigs
	}
	if x.samples == nil {
		cov["samples"] = []any{}
	}

	ev := map[string]any{
		"property_id": x.P.ID,
		"tier":        x.Tier,
		"seed":        int64(x.Seed),
		"level":       x.P.Level,
		"coverage":    cov,
		"assumptions": x.P.Assumptions,
		"wall_s":      wall.Seconds(),
		"violations":  len(unknown),
	}
	if x.P.Assumptions == nil {
		ev["assumptions"] = []string{}
	}
	os.MkdirAll(filepath.Join(verifRoot, "evidence"), 0755)
	b, _ := json.MarshalIndent(ev, "", " ")
	os.WriteFile(filepath.Join(verifRoot, "evidence", x.P.ID+".json"), append(b, '\n'), 0644)

	keys := []string{}
	for k := range knownSeen {
		keys = append(keys, k)
	}
	sort.Strings(keys)
	for _, k := range keys {
		parts := strings.SplitN(k, "\x00", 2)
		fmt.Printf("KNOWN-FINDING: property=%s %s [signature %s, observed %d times]\n", x.P.ID, parts[1], parts[0], knownSeen[k])
	}

	fmt.Printf("SUMMARY property=%s tier=%s seed=%d evaluations=%d distinct_nontrivial=%d violations=%d known=%d inconclusive=%d wall=%.1fs\n",
		x.P.ID, x.Tier, x.Seed, x.evaluations, len(x.distinct), len(unknown), len(x.viols)-len(unknown), sumMap(x.inconclusive), wall.Seconds())

	if len(unknown) > 0 {
		for _, r := range reps {
			fmt.Printf("VIOLATION property=%s replay=%s signature=%q\n", x.P.ID, r.path, r.sig)
		}
		for i, v := range unknown {
			if i >= 5 {
				break
			}
			fmt.Printf("  detail: [%s] %s\n", v.Sig, trunc(v.Desc, 500))
		}
		return 1
	}
	if x.isBroken != "" {
		fmt.Printf("BROKEN property=%s %s\n", x.P.ID, trunc(x.isBroken, 400))
		return 2
	}
	if len(x.distinct) < 2 || x.evaluations < 1 {
		fmt.Printf("BROKEN property=%s no evidence: evaluations=%d distinct_nontrivial=%d\n", x.P.ID, x.evaluations, len(x.distinct))
		return 2
	}
	return 0
}

func sumMap(m map[string]int) int {
	n := 0
	for _, v := range m {
		n += v
	}
	return n
}

// sigMatch: a known-finding signature matches exactly, or as a prefix when it
// ends in '*'
func sigMatch(pattern, sig string) bool {
	if strings.HasSuffix(pattern, "*") {
		return strings.HasPrefix(sig, strings.TrimSuffix(pattern, "*"))
	}
	return pattern == sig
}

// noAnsiConst breaks every `{NAME}` that murex's out / err / tout / ( ) builtins would
// expand into an ANSI sequence ({RED}, {F5}, {^^} ...): a documented feature of those
// builtins, not part of any property here, so generated text must not contain one
var ansiConstRx = regexp.MustCompile(`\{([-\^A-Z0-9]+)\}`)

func noAnsiConst(s string) string {
	return ansiConstRx.ReplaceAllString(s, "{$1)")
}

