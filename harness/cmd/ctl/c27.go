package main

import (
	"encoding/json"
	"fmt"
	"strconv"
	"strings"
	"time"

	"github.com/anishathalye/porcupine"

	"verif/proto"
)

type c27Op struct {
	Op  string `json:"op"`
	Tag int    `json:"tag,omitempty"`
	ID  int    `json:"id,omitempty"`
}

type c27Args struct {
	Procs [][]c27Op `json:"procs"`
}

type c27Ev struct {
	Proc int      `json:"proc"`
	Op   c27Op    `json:"op"`
	Tag  int      `json:"tag"`
	Err  string   `json:"err,omitempty"`
	List [][2]int `json:"list,omitempty"`
	Call int64    `json:"call"`
	Ret  int64    `json:"ret"`
}

// model state: "tag:r,tag:t,..." — slot i holds job id i+1 (r = running, t = terminated)
func c27Slots(s string) [][2]string {
	if s == "" {
		return nil
	}
	var out [][2]string
	for _, p := range strings.Split(s, ",") {
		kv := strings.SplitN(p, ":", 2)
		out = append(out, [2]string{kv[0], kv[1]})
	}
	return out
}

func c27Enc(sl [][2]string) string {
	parts := make([]string, len(sl))
	for i, s := range sl {
		parts[i] = s[0] + ":" + s[1]
	}
	return strings.Join(parts, ",")
}

// the specification as a nondeterministic sequential model: job ids are slot
// positions, a new job takes the next position, garbage collection may drop
// any number of trailing finished jobs (so an id is reused only after every
// job with that id or a higher one has finished) and never renumbers a job
var c27Model = porcupine.NondeterministicModel{
	Init: func() []interface{} { return []interface{}{""} },
	Step: func(state, input, output interface{}) []interface{} {
		sl := c27Slots(state.(string))
		ev := output.(c27Ev)
		op := input.(c27Op)
		switch op.Op {
		case "add":
			return []interface{}{c27Enc(append(sl, [2]string{strconv.Itoa(op.Tag), "r"}))}
		case "term":
			for i := range sl {
				if sl[i][0] == strconv.Itoa(op.Tag) {
					sl[i][1] = "t"
				}
			}
			return []interface{}{c27Enc(sl)}
		case "gc":
			out := []interface{}{c27Enc(sl)}
			for len(sl) > 0 && sl[len(sl)-1][1] == "t" {
				sl = sl[:len(sl)-1]
				out = append(out, c27Enc(sl))
			}
			return out
		case "get":
			var want int
			if op.ID >= 1 && op.ID <= len(sl) && sl[op.ID-1][1] == "r" {
				want, _ = strconv.Atoi(sl[op.ID-1][0])
			}
			if (want == 0) == (ev.Err != "") && ev.Tag == want {
				return []interface{}{state}
			}
			return nil
		case "latest":
			want := 0
			for i := len(sl) - 1; i >= 0; i-- {
				if sl[i][1] == "r" {
					want, _ = strconv.Atoi(sl[i][0])
					break
				}
			}
			if (want == 0) == (ev.Err != "") && ev.Tag == want {
				return []interface{}{state}
			}
			return nil
		case "list":
			var want [][2]int
			for i := range sl {
				if sl[i][1] == "r" {
					t, _ := strconv.Atoi(sl[i][0])
					want = append(want, [2]int{i + 1, t})
				}
			}
			if len(want) != len(ev.List) {
				return nil
			}
			for i := range want {
				if want[i] != ev.List[i] {
					return nil
				}
			}
			return []interface{}{state}
		}
		return nil
	},
	Equal: func(a, b interface{}) bool { return a.(string) == b.(string) },
}

func init() {
	register(&Property{
		ID:    "C27",
		Level: "exploration",
		Rule: "histories on a real lang.NewJobs() table with test processes: sequential histories of 10-60 operations (add, terminate, GarbageCollect, Get(id), GetLatest, List over <= 8 live jobs) and concurrent histories (2-4 goroutines, <= 14 operations) with logical call/return stamps; " +
			"plus tight-race trials (jobs added from 2 goroutines at the instant GarbageCollect runs on a table whose tail job has finished: every added job must stay listed, reachable under its id, ids unique); oracle: (a) the statement checked directly on sequential histories — a running job's id never changes between observations, List is exactly the running jobs, Get/GetLatest never return a finished job, GetLatest is the running job with the highest id, a new job's id exceeds every running job's id; (b) porcupine against a nondeterministic sequential model in which garbage collection may drop any number of trailing finished jobs; non-trivial = a job terminates while a higher-numbered job still runs, followed by a GC and a lookup; distinct by history description",
		Assumptions: []string{"jobs are lang.NewTestProcess() processes terminated through SetTerminatedState(true)", "a porcupine timeout is inconclusive"},
		Technique:   "runtime monitoring: recorded API histories checked against the statement (sequential) and for linearizability with porcupine v1.3.0 (concurrent)",
		Run: func(x *Ctx) {
			pool := x.NewPool(false)
			var cases []*proto.Case
			ns, nc := x.Pick(5000, 500000), x.Pick(2000, 100000)
			for i := 0; i < ns+nc; i++ {
				r := x.Rng("hist", i)
				var a c27Args
				tag := 0
				nprocs, budget := 1, 10+r.Intn(51)
				if i >= ns {
					nprocs, budget = 2+r.Intn(3), 14
				}
				live := 0
				for p := 0; p < nprocs; p++ {
					var ops []c27Op
					var mine []int
					n := budget / nprocs
					for k := 0; k < n; k++ {
						switch c := r.Intn(20); {
						case c < 6 && live < 8:
							tag++
							ops = append(ops, c27Op{Op: "add", Tag: tag})
							mine = append(mine, tag)
							live++
						case c < 10 && len(mine) > 0:
							j := r.Intn(len(mine))
							ops = append(ops, c27Op{Op: "term", Tag: mine[j]})
							mine = append(mine[:j], mine[j+1:]...)
							live--
						case c < 13:
							ops = append(ops, c27Op{Op: "gc"})
						case c < 16:
							ops = append(ops, c27Op{Op: "get", ID: r.Intn(11) - 1})
						case c < 18:
							ops = append(ops, c27Op{Op: "latest"})
						default:
							ops = append(ops, c27Op{Op: "list"})
						}
					}
					a.Procs = append(a.Procs, ops)
				}
				args, _ := json.Marshal(a)
				cases = append(cases, &proto.Case{ID: fmt.Sprintf("c27-%d", i), Op: "c27.hist", Args: args, TimeoutMs: 30000})
			}
			// tight-race trials: jobs added while the table is being garbage collected
			cases = append(cases, burstCases(x, "c27.burst", x.Pick(16, 64), x.Pick(3000, 40000), 3)...)
			x.RunAll(pool, cases)
		},
		Check: func(x *Ctx, c *proto.Case, r *proto.Result) {
			if x.Bad(c, r) {
				return
			}
			if c.Op == "c27.burst" {
				burstCheck(x, c, r, "jobs:lost-or-duplicated-during-gc", "jobs added while GarbageCollect runs")
				return
			}
			var a c27Args
			var evs []c27Ev
			json.Unmarshal(c.Args, &a)
			if err := json.Unmarshal(r.Out, &evs); err != nil {
				x.Inconclusive("malformed c27 result")
				return
			}
			x.Count("operations", int64(len(evs)))
			sequential := len(a.Procs) == 1
			if sequential {
				x.Count("sequential_histories", 1)
				// direct statement check
				running := map[int]bool{}
				idOf := map[int]int{}
				nontrivial, termWhileHigher, gcAfter := false, false, false
				fail := func(sig, msg string) {
					x.Viol("jobs:"+sig, msg+" — history: "+trunc(mustJSON(evs), 1500), c, evs, "statement of C27")
				}
				for _, e := range evs {
					switch e.Op.Op {
					case "add":
						running[e.Op.Tag] = true
					case "term":
						if running[e.Op.Tag] {
							for t := range running {
								if idOf[t] > idOf[e.Op.Tag] && idOf[e.Op.Tag] > 0 {
									termWhileHigher = true
								}
							}
						}
						delete(running, e.Op.Tag)
					case "gc":
						if termWhileHigher {
							gcAfter = true
						}
					case "list":
						if gcAfter {
							nontrivial = true
						}
						seen := map[int]bool{}
						for _, it := range e.List {
							id, tag := it[0], it[1]
							if !running[tag] {
								fail("list-shows-finished-job", fmt.Sprintf("List shows job %%%d (tag %d) which has finished", id, tag))
								return
							}
							if prev, ok := idOf[tag]; ok && prev != id {
								fail("job-renumbered", fmt.Sprintf("running job tag %d was %%%d and is now %%%d", tag, prev, id))
								return
							}
							if _, ok := idOf[tag]; !ok {
								// first sight of a new job: its id exceeds every running job's id seen before
								for t, rid := range idOf {
									if running[t] && t != tag && t < tag && rid >= id {
										fail("new-job-id-not-above-running", fmt.Sprintf("new job tag %d got %%%d while running job tag %d holds %%%d", tag, id, t, rid))
										return
									}
								}
							}
							idOf[tag] = id
							seen[tag] = true
						}
						for t := range running {
							if !seen[t] {
								fail("list-misses-running-job", fmt.Sprintf("List does not show running job tag %d", t))
								return
							}
						}
					case "get":
						if gcAfter {
							nontrivial = true
						}
						if e.Err == "" {
							if !running[e.Tag] {
								fail("get-returns-finished-job", fmt.Sprintf("Get(%d) returned finished job tag %d", e.Op.ID, e.Tag))
								return
							}
							if prev, ok := idOf[e.Tag]; ok && prev != e.Op.ID {
								fail("job-renumbered", fmt.Sprintf("running job tag %d was %%%d and now answers to %%%d", e.Tag, prev, e.Op.ID))
								return
							}
							idOf[e.Tag] = e.Op.ID
						} else {
							for t, id := range idOf {
								if running[t] && id == e.Op.ID {
									fail("get-misses-running-job", fmt.Sprintf("Get(%d) failed (%s) although running job tag %d holds that id", e.Op.ID, e.Err, t))
									return
								}
							}
						}
					case "latest":
						if e.Err == "" {
							if !running[e.Tag] {
								fail("latest-returns-finished-job", fmt.Sprintf("GetLatest returned finished job tag %d", e.Tag))
								return
							}
							for t := range running {
								if idOf[t] > 0 && idOf[e.Tag] > 0 && idOf[t] > idOf[e.Tag] {
									fail("latest-not-highest", fmt.Sprintf("GetLatest returned tag %d (%%%d) while tag %d (%%%d) runs", e.Tag, idOf[e.Tag], t, idOf[t]))
									return
								}
							}
						} else if len(running) > 0 {
							fail("latest-misses-running-job", "GetLatest failed although jobs are running")
							return
						}
					}
				}
				if nontrivial {
					x.Nontrivial(string(c.Args))
				}
				if len(evs) < 14 {
					x.Sample(map[string]any{"sequential_history": evs})
				}
			} else {
				x.Count("concurrent_histories", 1)
				x.Nontrivial(string(c.Args) + fmt.Sprint(evs[len(evs)-1].Ret))
			}
			var ops []porcupine.Operation
			for _, e := range evs {
				ops = append(ops, porcupine.Operation{ClientId: e.Proc, Input: e.Op, Call: e.Call, Output: e, Return: e.Ret})
			}
			res := porcupine.CheckOperationsTimeout(c27Model.ToModel(), ops, 20*time.Second)
			switch res {
			case porcupine.Ok:
				x.Count("histories_linearizable", 1)
			case porcupine.Unknown:
				x.Inconclusive("porcupine timed out")
			case porcupine.Illegal:
				kind := "concurrent"
				if sequential {
					kind = "sequential"
				}
				x.Viol("jobs:not-linearizable:"+kind, "history cannot be explained by the job-table specification: "+trunc(mustJSON(evs), 1500), c, evs, "a linearization")
			}
		},
	})
}
