package main

import (
	"encoding/json"
	"fmt"
	"math/rand"
	"strings"

	"verif/proto"
)

type cfgOpt struct {
	App, Key string
	Global   bool
	Default  string
	Values   []string
}

var c25Opts = []cfgOpt{
	{"http", "timeout", false, "10", []string{"3", "7", "25", "60", "10"}},
	{"index", "silent", false, "false", []string{"true", "false"}},
	{"shell", "max-suggestions", true, "12", []string{"5", "9", "30", "12"}},
	// a user-defined app that mixes a non-global and a global option (defined by the program's prelude)
	{"c25app", "local", false, "L0", []string{"L1", "L2", "L0"}},
	{"c25app", "shared", true, "G0", []string{"G1", "G2", "G0"}},
}

const c25Prelude = `config define c25app local ({"Description":"scoped option","DataType":"str","Default":"L0","Global":false})
config define c25app shared ({"Description":"global option","DataType":"str","Default":"G0","Global":true})
`

type cfgOp struct {
	Kind string // set get default call if foreach
	Opt  int
	Val  string
	Fn   int
	Body []*cfgOp
}

type cfgGen struct {
	r      *rand.Rand
	budget int
}

func (g *cfgGen) ops(depth, fnLevel, nfn int) []*cfgOp {
	n := 2 + g.r.Intn(6)
	var out []*cfgOp
	for i := 0; i < n && g.budget > 0; i++ {
		g.budget--
		o := g.r.Intn(len(c25Opts))
		k := g.r.Intn(100)
		switch {
		case k < 30:
			v := c25Opts[o].Values
			out = append(out, &cfgOp{Kind: "set", Opt: o, Val: v[g.r.Intn(len(v))]})
		case k < 65:
			out = append(out, &cfgOp{Kind: "get", Opt: o})
		case k < 73:
			out = append(out, &cfgOp{Kind: "default", Opt: o})
		case k < 86 && fnLevel < nfn:
			out = append(out, &cfgOp{Kind: "call", Fn: fnLevel + 1 + g.r.Intn(nfn-fnLevel)})
		case k < 93 && depth > 0:
			out = append(out, &cfgOp{Kind: "if", Body: g.ops(depth-1, fnLevel, nfn)})
		case depth > 0:
			out = append(out, &cfgOp{Kind: "foreach", Body: g.ops(depth-1, fnLevel, nfn)})
		default:
			out = append(out, &cfgOp{Kind: "get", Opt: o})
		}
	}
	return out
}

func cfgSrc(ops []*cfgOp, id, ind string, b *strings.Builder) {
	for _, o := range ops {
		opt := c25Opts[o.Opt]
		switch o.Kind {
		case "set":
			fmt.Fprintf(b, "%sconfig set %s %s %s\n", ind, opt.App, opt.Key, o.Val)
		case "get":
			fmt.Fprintf(b, "%sout \"%s.%s=${config get %s %s}\"\n", ind, opt.App, opt.Key, opt.App, opt.Key)
		case "default":
			fmt.Fprintf(b, "%sconfig default %s %s\n", ind, opt.App, opt.Key)
		case "call":
			fmt.Fprintf(b, "%sc25f%d_%s\n", ind, o.Fn, id)
		case "if":
			b.WriteString(ind + "if { true } then {\n")
			cfgSrc(o.Body, id, ind+"  ", b)
			b.WriteString(ind + "}\n")
		case "foreach":
			b.WriteString(ind + "a [1..1] -> foreach c25i {\n")
			cfgSrc(o.Body, id, ind+"  ", b)
			b.WriteString(ind + "}\n")
		}
	}
}

type cfgModel struct {
	session map[int]string
	fns     map[int][]*cfgOp
	out     strings.Builder
	steps   int
	cross   int // a get that observes a value set in a different scope, or not observing one set elsewhere
}

func (m *cfgModel) get(o int, overlay map[int]string) string {
	if !c25Opts[o].Global {
		if v, ok := overlay[o]; ok {
			return v
		}
	}
	if v, ok := m.session[o]; ok {
		return v
	}
	return c25Opts[o].Default
}

func (m *cfgModel) run(ops []*cfgOp, overlay map[int]string, setElsewhere map[int]bool) {
	for _, o := range ops {
		m.steps++
		if m.steps > 500 {
			return
		}
		switch o.Kind {
		case "set":
			if c25Opts[o.Opt].Global {
				m.session[o.Opt] = o.Val
			} else {
				overlay[o.Opt] = o.Val
			}
			setElsewhere[o.Opt] = true
		case "default":
			if c25Opts[o.Opt].Global {
				m.session[o.Opt] = c25Opts[o.Opt].Default
			} else {
				overlay[o.Opt] = c25Opts[o.Opt].Default
			}
		case "get":
			opt := c25Opts[o.Opt]
			if _, local := overlay[o.Opt]; !local && setElsewhere[o.Opt] {
				m.cross++
			}
			m.out.WriteString(opt.App + "." + opt.Key + "=" + m.get(o.Opt, overlay) + "\n")
		case "call":
			m.run(m.fns[o.Fn], map[int]string{}, setElsewhere)
		case "if", "foreach":
			m.run(o.Body, overlay, setElsewhere)
		}
	}
}

type c25Expect struct {
	Stdout string `json:"stdout"`
	Src    string `json:"src"`
	NT     bool   `json:"nt"`
}

func init() {
	register(&Property{
		ID:    "C25",
		Level: "exploration",
		Rule: "PRNG sequences of 6-45 `config set|get|default` operations over two non-global options (http timeout, index silent), one global option (shell max-suggestions) and a user-defined app that mixes one non-global and one global option (`config define` in the program's prelude), spread over up to 3 functions calling each other, if / foreach bodies, with PRNG session-level values preset on the shell process before the program starts; compared with an overlay model (session table + one overlay per function call, not inherited by callees; blocks share their function's overlay; global options always write the session table; `default` writes the declared default into the current scope); " +
			"non-trivial = a get in one scope after a set of the same option in another scope; distinct by (session presets, program text)",
		Assumptions: []string{"the program's top level is itself a function scope in the harness; session-level values are set on the shell process through the Config API", "every case restores the touched options to their defaults when it ends (session writes leak between cases by design)"},
		Run: func(x *Ctx) {
			pool := x.NewPool(false)
			n := x.Pick(1500, 50000)
			var cases []*proto.Case
			for i := 0; i < n; i++ {
				r := x.Rng("cfg", i)
				id := fmt.Sprintf("%d_%d", x.Seed, i)
				g := &cfgGen{r: r, budget: 32}
				nfn := r.Intn(4)
				m := &cfgModel{session: map[int]string{}, fns: map[int][]*cfgOp{}}
				var sess [][]string
				for oi, o := range c25Opts {
					if !o.Global && o.App != "c25app" && r.Intn(3) == 0 {
						v := o.Values[r.Intn(len(o.Values))]
						m.session[oi] = v
						sess = append(sess, []string{o.App, o.Key, v})
					}
				}
				var src strings.Builder
				src.WriteString(c25Prelude)
				for f := nfn; f >= 1; f-- {
					body := g.ops(1, f, nfn)
					m.fns[f] = body
					fmt.Fprintf(&src, "function c25f%d_%s {\n", f, id)
					cfgSrc(body, id, "  ", &src)
					src.WriteString("}\n")
				}
				g.budget += 12
				mainOps := g.ops(2, 0, nfn)
				cfgSrc(mainOps, id, "", &src)
				// leave the global option at its default and drop the functions
				src.WriteString("config default shell max-suggestions\nconfig default c25app shared\n")
				for f := 1; f <= nfn; f++ {
					fmt.Fprintf(&src, "!function c25f%d_%s\n", f, id)
				}
				m.run(mainOps, map[int]string{}, map[int]bool{})
				if m.steps > 500 {
					continue
				}
				e := c25Expect{Stdout: m.out.String(), Src: src.String(), NT: m.cross > 0}
				exp, _ := json.Marshal(e)
				args, _ := json.Marshal(map[string]any{"session_config": sess})
				cases = append(cases, &proto.Case{ID: "c25-" + id, Op: "prog", Block: src.String(), Args: args, Expect: exp, TimeoutMs: 30000})
			}
			x.RunAll(pool, cases)
		},
		Check: func(x *Ctx, c *proto.Case, r *proto.Result) {
			if x.Bad(c, r) {
				return
			}
			var e c25Expect
			json.Unmarshal(c.Expect, &e)
			run := r.Runs[0]
			if e.NT {
				x.Nontrivial(string(c.Args) + e.Src)
			}
			if e.NT && len(e.Src) < 600 {
				x.Sample(map[string]any{"session_presets": json.RawMessage(c.Args), "program": e.Src, "expected_stdout": e.Stdout})
			}
			x.Count("gets_compared", int64(strings.Count(e.Stdout, "\n")))
			if string(run.Stdout) != e.Stdout || run.Err != "" {
				// first differing line
				gl, wl := strings.Split(string(run.Stdout), "\n"), strings.Split(e.Stdout, "\n")
				first := ""
				for i := range wl {
					if i >= len(gl) || gl[i] != wl[i] {
						g := "<missing>"
						if i < len(gl) {
							g = gl[i]
						}
						first = fmt.Sprintf("line %d: murex %q, model %q", i+1, g, wl[i])
						break
					}
				}
				opt := "?"
				for _, o := range c25Opts {
					if strings.Contains(first, o.App+"."+o.Key) {
						opt = o.Key
					}
				}
				x.Viol("config-scope:"+opt, fmt.Sprintf("session presets %s, program\n%s\n%s; run error %q stderr=%q", string(c.Args), e.Src, first, run.Err, trunc(string(run.Stderr), 300)), c, string(run.Stdout), e.Stdout)
			}
		},
	})
}
