package main

import (
	"encoding/json"
	"fmt"
	"strings"
	"time"

	"github.com/anishathalye/porcupine"

	"verif/proto"
)

type c26Op struct {
	Op      string `json:"op"`
	Name    string `json:"name,omitempty"`
	SleepMs int    `json:"sleep_ms,omitempty"`
}

type c26Hist struct {
	ID    string    `json:"id"`
	Procs [][]c26Op `json:"procs"`
}

type c26Args struct {
	Hists     []c26Hist `json:"hists"`
	YieldSeed uint64    `json:"yield_seed"`
}

type c26Ev struct {
	Proc    int             `json:"proc"`
	Op      string          `json:"op"`
	Name    string          `json:"name,omitempty"`
	OK      bool            `json:"ok"`
	Err     string          `json:"err,omitempty"`
	Present map[string]bool `json:"present,omitempty"`
	Call    int64           `json:"call"`
	Ret     int64           `json:"ret"`
}

type c26HistOut struct {
	ID        string          `json:"id"`
	Events    []c26Ev         `json:"events"`
	Final     map[string]bool `json:"final"`
	FinalCall int64           `json:"final_call"`
	FinalRet  int64           `json:"final_ret"`
}

type c26Out struct {
	Hists   []c26HistOut `json:"hists"`
	Expired []string     `json:"expired"`
	Hits    uint64       `json:"hits"`
}

type c26In struct {
	Op string
}

// per-name specification: A = absent, L = live, C = closed and waiting out its
// grace period (still visible; may expire at any moment)
var c26Model = porcupine.NondeterministicModel{
	Init: func() []interface{} { return []interface{}{"A"} },
	Step: func(state, input, output interface{}) []interface{} {
		in := input.(c26In)
		ok := output.(bool)
		pre := []string{state.(string)}
		if state.(string) == "C" && in.Op != "final" {
			pre = append(pre, "A")
		}
		if state.(string) == "C" && in.Op == "final" {
			pre = []string{"A"} // the grace period is over: a closed pipe must be gone
		}
		set := map[string]bool{}
		for _, s := range pre {
			switch in.Op {
			case "create", "expose":
				if ok && s == "A" {
					set["L"] = true
				}
				if !ok && s != "A" {
					set[s] = true
				}
			case "close":
				if ok && s != "A" {
					set["C"] = true
				}
				if !ok && s == "A" {
					set["A"] = true
				}
			case "delete":
				if ok && s != "A" {
					set["A"] = true
				}
				if !ok && s == "A" {
					set["A"] = true
				}
			case "get", "present", "final":
				if ok == (s != "A") {
					set[s] = true
				}
			}
		}
		var out []interface{}
		for s := range set {
			out = append(out, s)
		}
		return out
	},
	Equal: func(a, b interface{}) bool { return a.(string) == b.(string) },
}

func init() {
	register(&Property{
		ID:    "C26",
		Level: "exploration",
		Rule: "API histories on independent pipes.NewNamed() registries (40 histories run concurrently per worker, each waits out the real 2 s grace period): 3 names, 6-20 operations (create, expose = ExposePipe of an existing stream as onCommandCompletion does, close, delete, get, dump) from 1-4 goroutines, with double close, delete-after-close, close-after-delete, create during and after the grace period (PRNG sleeps up to 2.2 s), get of missing names; plus murex programs using `pipe`, `!pipe`, `<name>` and `runtime --pipes` with the worker kept idle for 2.6 s afterwards; " +
			"plus tight-race trials (8 goroutines released together from a spin barrier call CreatePipe with one name: exactly one may succeed and the name must then resolve); oracle: (1) the worker process survives and prints no crash text; (2) per name, porcupine against a nondeterministic model (create ok iff absent; close/delete/get ok iff present; a closed pipe stays visible until it expires at some point of its grace period); (3) after quiescence every closed name is gone and every other created name is still present; non-trivial = a history closes or deletes a name that is closing, or >= 2 goroutines touch one name; distinct by history description",
		Assumptions: []string{"expiry may happen at any moment after Close (the statement gives no lower bound); it must have happened 2.6 s after the last operation", "a porcupine timeout is inconclusive"},
		Technique:   "runtime monitoring: recorded concurrent histories checked per name for linearizability (porcupine v1.3.0, nondeterministic model) plus quiescent-state and process-survival checks",
		Run: func(x *Ctx) {
			pool := x.NewPool(false)
			nh := x.Pick(600, 20000)
			per := 40
			var cases []*proto.Case
			for b := 0; b*per < nh; b++ {
				var a c26Args
				a.YieldSeed = uint64(x.Rng("yield", b).Int63()) | 1
				for h := 0; h < per; h++ {
					r := x.Rng("hist", b*per+h)
					hid := fmt.Sprintf("h%d_%d_%d", x.Seed, b, h)
					names := []string{hid + "a", hid + "b", hid + "c"}
					np := 1 + r.Intn(4)
					total := 6 + r.Intn(15)
					hist := c26Hist{ID: hid, Procs: make([][]c26Op, np)}
					longSleepUsed := false
					if h%8 == 5 {
						// a name registered, closed, deleted and registered again inside the grace period of
						// the first registration: the pending timer must leave the new registration alone
						reg := func() c26Op { return c26Op{Op: []string{"create", "expose"}[r.Intn(2)], Name: names[0]} }
						hist.Procs[0] = append(hist.Procs[0], reg(), c26Op{Op: "close", Name: names[0]}, c26Op{Op: "delete", Name: names[0]}, reg())
						if r.Intn(2) == 0 {
							total = r.Intn(4) // and little else
						}
					}
					for k := 0; k < total; k++ {
						p := r.Intn(np)
						name := names[r.Intn(3)]
						if r.Intn(3) == 0 {
							name = names[0] // contention on one name
						}
						var op c26Op
						switch c := r.Intn(20); {
						case c < 4:
							op = c26Op{Op: "create", Name: name}
						case c < 6:
							// the other way a name gets registered: an existing stream exposed under it
							// (as onCommandCompletion does)
							op = c26Op{Op: "expose", Name: name}
						case c < 11:
							op = c26Op{Op: "close", Name: name}
						case c < 14:
							op = c26Op{Op: "delete", Name: name}
						case c < 16:
							op = c26Op{Op: "get", Name: name}
						case c < 18:
							op = c26Op{Op: "dump"}
						case c < 19 && !longSleepUsed && h%3 == 0:
							op = c26Op{Op: "sleep", SleepMs: 2200}
							longSleepUsed = true
						default:
							op = c26Op{Op: "sleep", SleepMs: r.Intn(30)}
						}
						hist.Procs[p] = append(hist.Procs[p], op)
					}
					a.Hists = append(a.Hists, hist)
				}
				args, _ := json.Marshal(a)
				cases = append(cases, &proto.Case{ID: fmt.Sprintf("c26-batch-%d", b), Op: "c26.batch", Args: args, TimeoutMs: 120000})
			}
			// murex programs
			np := x.Pick(60, 2000)
			for i := 0; i < np; i++ {
				r := x.Rng("prog", i)
				n1, n2 := fmt.Sprintf("c26p%d_%da", x.Seed, i), fmt.Sprintf("c26p%d_%db", x.Seed, i)
				// (a bare `<name>` read blocks until the pipe is closed by design, so reads are not generated)
				cmds := []string{"pipe " + n1, "!pipe " + n1, "pipe " + n2, "!pipe " + n2, "out x -> <" + n1 + ">", "runtime --pipes -> [[/" + n1 + "]]", "!pipe " + n1 + "; !pipe " + n1, "pipe " + n1 + "; pipe " + n1, "out y -> <" + n2 + ">"}
				var b strings.Builder
				for k := 2 + r.Intn(7); k > 0; k-- {
					b.WriteString(cmds[r.Intn(len(cmds))] + "\n")
				}
				b.WriteString("!pipe " + n1 + "\n!pipe " + n2 + "\nout END\n")
				cases = append(cases, &proto.Case{ID: fmt.Sprintf("c26-prog-%d", i), Op: "prog", Block: b.String(), TimeoutMs: 60000, IdleMs: 2600})
			}
			// tight-race trials: 8 goroutines released together create the same name
			cases = append(cases, burstCases(x, "c26.burst", x.Pick(16, 64), x.Pick(3000, 40000), 8)...)
			x.RunAll(pool, cases)
		},
		Check: func(x *Ctx, c *proto.Case, r *proto.Result) {
			if x.Bad(c, r) {
				return
			}
			if c.Op == "c26.burst" {
				burstCheck(x, c, r, "namedpipe:concurrent-create-not-exclusive", "concurrent CreatePipe calls for one name")
				return
			}
			if c.Op == "prog" {
				run := r.Runs[0]
				x.Count("murex_programs", 1)
				x.Nontrivial(c.Block)
				if m := hasCrashText(string(run.Stderr) + r.OSErr); m != "" {
					x.Viol("namedpipe:program-crash-text", fmt.Sprintf("program\n%s\nproduced crash text %q: %s", c.Block, m, trunc(r.OSErr+string(run.Stderr), 600)), c, r.OSErr, "no crash")
				} else if !strings.Contains(string(run.Stdout), "END") {
					x.Viol("namedpipe:program-did-not-finish", fmt.Sprintf("program\n%s\ndid not reach its end; stdout=%q stderr=%q", c.Block, trunc(string(run.Stdout), 200), trunc(string(run.Stderr), 300)), c, string(run.Stdout), "END")
				}
				return
			}
			var a c26Args
			var o c26Out
			json.Unmarshal(c.Args, &a)
			if err := json.Unmarshal(r.Out, &o); err != nil || len(o.Hists) != len(a.Hists) {
				x.Inconclusive("malformed c26 result")
				return
			}
			x.Eval(len(o.Hists) - 1)
			x.Count("expire_events_observed", int64(len(o.Expired)))
			x.Count("yield_points_hit", int64(o.Hits))
			for hi, h := range o.Hists {
				names := []string{h.ID + "a", h.ID + "b", h.ID + "c"}
				x.Count("operations", int64(len(h.Events)))
				// non-trivial?
				closing := map[string]bool{}
				procsOf := map[string]map[int]bool{}
				nt := false
				for _, e := range h.Events {
					if e.Name != "" {
						if procsOf[e.Name] == nil {
							procsOf[e.Name] = map[int]bool{}
						}
						procsOf[e.Name][e.Proc] = true
						if (e.Op == "close" || e.Op == "delete") && closing[e.Name] {
							nt = true
						}
						if e.Op == "close" && e.OK {
							closing[e.Name] = true
						}
					}
				}
				for _, ps := range procsOf {
					if len(ps) >= 2 {
						nt = true
					}
				}
				hk, _ := json.Marshal(a.Hists[hi].Procs)
				if nt {
					x.Nontrivial(string(hk))
				}
				if len(h.Events) < 8 {
					x.Sample(map[string]any{"history": h.Events, "final": h.Final})
				}
				for _, name := range names {
					var ops []porcupine.Operation
					for _, e := range h.Events {
						switch {
						case e.Op == "dump":
							ops = append(ops, porcupine.Operation{ClientId: e.Proc, Input: c26In{"present"}, Call: e.Call, Output: e.Present[name], Return: e.Ret})
						case e.Name == name:
							ops = append(ops, porcupine.Operation{ClientId: e.Proc, Input: c26In{e.Op}, Call: e.Call, Output: e.OK, Return: e.Ret})
						}
					}
					ops = append(ops, porcupine.Operation{ClientId: 9, Input: c26In{"final"}, Call: h.FinalCall, Output: h.Final[name], Return: h.FinalRet})
					res := porcupine.CheckOperationsTimeout(c26Model.ToModel(), ops, 20*time.Second)
					switch res {
					case porcupine.Ok:
						x.Count("per_name_histories_linearizable", 1)
					case porcupine.Unknown:
						x.Inconclusive("porcupine timed out")
					case porcupine.Illegal:
						var mine []c26Ev
						for _, e := range h.Events {
							if e.Name == name || e.Op == "dump" {
								mine = append(mine, e)
							}
						}
						// classify
						sig := "not-linearizable"
						// does the history without the final observation linearize?
						res2 := porcupine.CheckOperationsTimeout(c26Model.ToModel(), ops[:len(ops)-1], 20*time.Second)
						if res2 == porcupine.Ok {
							if h.Final[name] {
								sig = "closed-pipe-still-present-after-grace"
							} else {
								sig = "live-pipe-vanished"
							}
						}
						single := &proto.Case{ID: c.ID + "-" + h.ID, Op: "c26.batch", TimeoutMs: 60000}
						single.Args, _ = json.Marshal(c26Args{Hists: []c26Hist{a.Hists[hi]}, YieldSeed: a.YieldSeed})
						x.Viol("namedpipe:"+sig, fmt.Sprintf("name %s: operations %s then final presence %v cannot be explained by the registry specification", strings.TrimPrefix(name, h.ID), mustJSON(mine), h.Final[name]), single, mine, "a linearization")
					}
				}
			}
		},
	})
}
