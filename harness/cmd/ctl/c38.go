package main

import (
	"encoding/json"
	"fmt"
	"math/rand"
	"sort"
	"strings"

	"verif/proto"
)

type c38Expect struct {
	Type   string   `json:"type"`
	In     []string `json:"in"`
	Cmd    string   `json:"cmd"`
	Args   []string `json:"args"`
	Want   []string `json:"want,omitempty"`
	Strict bool     `json:"strict"`
	Pair   string   `json:"pair,omitempty"` // for match: "match" or "!match"
}

var c38Atoms = []string{"a", "b", "B", "z", "0", "10", "9", " ", "é", "日", "#", ";", "|", "&", "*", "$x", "~", "'", "\"", "{", "}", "[", "]", "(", ")", ",", ":", "-", "--x", "\\", "=", "<", ">", "ab", "ba", "aa", "\t"}

func c38Elem(r *rand.Rand, jsonList bool) string {
	for {
		n := r.Intn(5)
		if !jsonList && n == 0 {
			n = 1
		}
		s := ""
		for i := 0; i < n; i++ {
			a := c38Atoms[r.Intn(len(c38Atoms))]
			if !jsonList && (a == "\t") {
				continue
			}
			s += a
		}
		if !jsonList {
			s = strings.TrimSpace(s)
			if s == "" {
				continue
			}
		}
		return s
	}
}

func isASCII(l []string) bool {
	for _, s := range l {
		for i := 0; i < len(s); i++ {
			if s[i] >= 0x80 {
				return false
			}
		}
	}
	return true
}

func isSubsequence(sub, full []string) bool {
	i := 0
	for _, f := range full {
		if i < len(sub) && sub[i] == f {
			i++
		}
	}
	return i == len(sub)
}

func init() {
	register(&Property{
		ID:    "C38",
		Level: "exploration",
		Rule: "JSON string arrays and str lists of 0-40 elements over a hostile alphabet (whitespace, quotes, $ ~ * # ; | & brackets, backslash, non-ASCII, duplicates) held in a typed variable and piped through msort, mtac, prepend, append, match, !match, left, right, prefix, suffix with simple parameters; " +
			"oracle: msort = sorted permutation (bytewise non-decreasing), mtac = reverse, prepend/append exact, match and !match = complementary subsequences agreeing with the documented contains-predicate, left/right/prefix/suffix = element-wise model with the same length (left/right asserted on ASCII lists only); non-trivial = list has >= 2 elements with a metacharacter or duplicate; distinct by (type, list, command, args)",
		Assumptions: []string{"empty input lists are executed for crash-freedom only (the json marshaller reports 'no data returned')", "str list elements are non-empty, single-line, without leading/trailing whitespace", "left/right count bytes; non-ASCII lists are executed for crash-freedom only"},
		Run: func(x *Ctx) {
			pool := x.NewPool(false)
			n := x.Pick(400, 20000)
			var cases []*proto.Case
			id := 0
			for i := 0; i < n; i++ {
				r := x.Rng("list", i)
				typ := []string{"json", "str"}[i%2]
				cnt := r.Intn(41)
				if r.Intn(3) == 0 {
					cnt = r.Intn(5)
				}
				in := make([]string, cnt)
				for j := range in {
					if j > 0 && r.Intn(6) == 0 {
						in[j] = in[r.Intn(j)] // duplicates
					} else {
						in[j] = c38Elem(r, typ == "json")
					}
				}
				var doc string
				if typ == "json" {
					b, _ := json.Marshal(in)
					doc = string(b)
				} else {
					doc = strings.Join(in, "\n")
				}
				mk := func(e c38Expect) {
					id++
					e.Type, e.In = typ, in
					block := "$l -> " + e.Cmd
					for _, a := range e.Args {
						block += " '" + a + "'"
					}
					exp, _ := json.Marshal(e)
					cases = append(cases, &proto.Case{ID: fmt.Sprintf("c38-%d", id), Op: "prog", Block: block, Vars: []proto.Var{{Name: "l", Type: typ, Value: doc}}, Expect: exp, TimeoutMs: 30000})
				}
				strict := cnt > 0
				sorted := append([]string{}, in...)
				sort.Strings(sorted)
				mk(c38Expect{Cmd: "msort", Want: sorted, Strict: strict})
				rev := make([]string, cnt)
				for j := range in {
					rev[cnt-1-j] = in[j]
				}
				mk(c38Expect{Cmd: "mtac", Want: rev, Strict: strict})
				args := []string{"x1", "y 2"}[:1+r.Intn(2)]
				mk(c38Expect{Cmd: "prepend", Args: args, Want: append(append([]string{}, args...), in...), Strict: strict})
				mk(c38Expect{Cmd: "append", Args: args, Want: append(append([]string{}, in...), args...), Strict: strict})
				pat := []string{"a", "b", "0", "aa", "é", " ", "#", "zz"}[r.Intn(8)]
				var m, nm []string
				for _, s := range in {
					if strings.Contains(s, pat) {
						m = append(m, s)
					} else {
						nm = append(nm, s)
					}
				}
				mk(c38Expect{Cmd: "match", Args: []string{pat}, Want: m, Strict: strict && len(m) > 0, Pair: "match"})
				mk(c38Expect{Cmd: "!match", Args: []string{pat}, Want: nm, Strict: strict && len(nm) > 0, Pair: "!match"})
				k := 1 + r.Intn(4)
				ascii := isASCII(in)
				// parameters of prefix / suffix: plain text and text that would mean something to a
				// formatter, a regexp or the shell if it were ever interpreted (single-quoted in the program)
				fix := []string{"P-", "-S", "100% ", "%d", "%", "%%", "%s%s", "\\", "$x", "a b", "日", ".*", "[", "\\n"}
				fp, fs := fix[r.Intn(len(fix))], fix[r.Intn(len(fix))]
				var lft, rgt, pre, suf []string
				for _, s := range in {
					if len(s) <= k {
						lft, rgt = append(lft, s), append(rgt, s)
					} else {
						lft, rgt = append(lft, s[:k]), append(rgt, s[len(s)-k:])
					}
					pre, suf = append(pre, fp+s), append(suf, s+fs)
				}
				mk(c38Expect{Cmd: "left", Args: []string{fmt.Sprint(k)}, Want: lft, Strict: strict && ascii})
				mk(c38Expect{Cmd: "right", Args: []string{fmt.Sprint(k)}, Want: rgt, Strict: strict && ascii})
				mk(c38Expect{Cmd: "prefix", Args: []string{fp}, Want: pre, Strict: strict})
				mk(c38Expect{Cmd: "suffix", Args: []string{fs}, Want: suf, Strict: strict})
			}
			x.RunAll(pool, cases)
		},
		Check: func(x *Ctx, c *proto.Case, r *proto.Result) {
			if x.Bad(c, r) {
				return
			}
			var e c38Expect
			json.Unmarshal(c.Expect, &e)
			run := r.Runs[0]
			stdout, stderr := string(run.Stdout), string(run.Stderr)
			x.Count("runs "+e.Cmd, 1)
			if m := hasCrashText(stderr + r.OSErr + run.Err); m != "" {
				x.Viol("list:"+e.Cmd+":panic", fmt.Sprintf("`%s` on %s list %q ended in panic text %q: %s", c.Block, e.Type, e.In, m, trunc(stderr+r.OSErr, 300)), c, stderr, "no panic")
				return
			}
			if !e.Strict {
				x.Count("crash_freedom_only", 1)
				return
			}
			key := fmt.Sprintf("%s|%s|%v|%q", e.Type, e.Cmd, e.Args, e.In)
			if len(e.In) >= 2 {
				x.Nontrivial(key)
			}
			if len(e.In) > 1 && len(e.In) < 5 {
				x.Sample(map[string]any{"type": e.Type, "list": e.In, "program": c.Block, "expected": e.Want})
			}
			got, err := decodeList(stdout, e.Type == "json")
			if e.Type == "json" && err == nil && got == nil {
				got = []string{}
			}
			if err != nil || run.Exit != 0 || !sameList(got, e.Want) {
				detail := ""
				if e.Pair != "" && err == nil {
					if !isSubsequence(got, e.In) {
						detail = " (output is not a subsequence of the input)"
					}
				}
				if e.Cmd == "msort" && err == nil {
					a := append([]string{}, got...)
					b := append([]string{}, e.In...)
					sort.Strings(a)
					sort.Strings(b)
					if !sameList(a, b) {
						detail = " (output is not a permutation of the input)"
					} else if !sort.StringsAreSorted(got) {
						detail = " (output is not in non-decreasing byte order)"
					}
				}
				x.Viol("list:"+e.Cmd+":wrong", fmt.Sprintf("`%s` on %s list %q gave %q exit=%d stderr=%q; expected %q%s", c.Block, e.Type, e.In, trunc(stdout, 400), run.Exit, trunc(stderr, 200), e.Want, detail), c, stdout, e.Want)
			}
		},
	})
}
