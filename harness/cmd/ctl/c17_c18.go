package main

import (
	"encoding/json"
	"fmt"
	"strconv"
	"strings"

	"verif/proto"
)

type listExpect struct {
	Form   string   `json:"form"`
	Want   []string `json:"want"`
	Strict bool     `json:"strict"`
	JSON   bool     `json:"json"`
	NT     bool     `json:"nt"`
	Key    string   `json:"key"`
}

// decodeList turns stdout into a list: JSON array (elements stringified) or lines
func decodeList(out string, isJSON bool) ([]string, error) {
	if isJSON {
		var arr []any
		if strings.TrimSpace(out) == "" {
			return nil, nil
		}
		dec := json.NewDecoder(strings.NewReader(out))
		dec.UseNumber()
		if err := dec.Decode(&arr); err != nil {
			return nil, err
		}
		var l []string
		for _, e := range arr {
			l = append(l, fmt.Sprint(e))
		}
		return l, nil
	}
	if out == "" {
		return nil, nil
	}
	return strings.Split(strings.TrimSuffix(out, "\n"), "\n"), nil
}

func sameList(a, b []string) bool {
	if len(a) != len(b) {
		return false
	}
	for i := range a {
		if a[i] != b[i] {
			return false
		}
	}
	return true
}

func listCheck(prop string) func(x *Ctx, c *proto.Case, r *proto.Result) {
	return func(x *Ctx, c *proto.Case, r *proto.Result) {
		if x.Bad(c, r) {
			return
		}
		var e listExpect
		json.Unmarshal(c.Expect, &e)
		run := r.Runs[0]
		stdout, stderr := string(run.Stdout), string(run.Stderr)
		if e.NT {
			x.Nontrivial(e.Key)
		}
		x.Count("form "+e.Form, 1)
		if m := hasCrashText(stderr + stdout + r.OSErr + run.Err); m != "" {
			x.Viol(e.Form+":panic", fmt.Sprintf("`%s` ended in internal panic text (%q): %s", c.Block, m, trunc(stderr+r.OSErr, 300)), c, stderr, "no panic")
			return
		}
		if !e.Strict {
			x.Count("crash_freedom_only", 1)
			return
		}
		if len(e.Want) > 1 && len(e.Want) < 6 {
			x.Sample(map[string]any{"program": c.Block, "expected": e.Want, "stdout": stdout})
		}
		got, err := decodeList(stdout, e.JSON)
		if err != nil || !sameList(got, e.Want) || run.Exit != 0 {
			x.Viol(e.Form+":wrong", fmt.Sprintf("`%s` (%s) gave stdout=%q exit=%d stderr=%q; model says %v", c.Block, e.Key, trunc(stdout, 300), run.Exit, trunc(stderr, 200), e.Want), c, stdout, e.Want)
		}
	}
}

// rangeModel: 1-based inclusive slice clipped to n; excl drops the given end-points
func rangeModel(items []string, s, e int, hasS, hasE, excl bool) []string {
	n := len(items)
	lo, hi := 1, n
	if hasS {
		lo = s
	}
	if hasE && e < hi {
		hi = e
	}
	if excl {
		if hasS {
			lo++
		}
		if hasE {
			hi = e - 1
			if hi > n {
				hi = n
			}
		}
	}
	var out []string
	for i := lo; i <= hi && i <= n; i++ {
		if i >= 1 {
			out = append(out, items[i-1])
		}
	}
	return out
}

func init() {
	register(&Property{
		ID:    "C17",
		Level: "exploration",
		Rule: "lists of n items (n <= 12 quick, <= 30 thorough) held in a str or json typed variable; exhaustively every [s..e] with 1 <= s <= e <= n+5, every [s..], [..e], [-k..] (k <= n), each with and without the `e` flag; out-of-range / reversed / zero bounds are executed for crash-freedom only; " +
			"compared with a slice model (1-based, inclusive, clipped, `e` drops the given end-points, order preserved); non-trivial = the slice is a proper non-empty sub-list or uses the e flag; distinct by (type, n, filter)",
		Assumptions: []string{"with the e flag an end-point beyond the list (e > n) is not asserted", "empty results on json input are not asserted (the json marshaller reports 'no data returned')"},
		Check:       listCheck("C17"),
		Run: func(x *Ctx) {
			pool := x.NewPool(false)
			maxN := x.Pick(12, 30)
			var cases []*proto.Case
			id := 0
			for _, typ := range []string{"str", "json"} {
				for n := 0; n <= maxN; n++ {
					if typ == "json" && x.Quick() && n%3 != 0 {
						continue
					}
					items := make([]string, n)
					for i := range items {
						items[i] = fmt.Sprintf("it%d", i+1)
					}
					var doc string
					if typ == "json" {
						b, _ := json.Marshal(items)
						doc = string(b)
						if n == 0 {
							doc = "[]"
						}
					} else {
						doc = strings.Join(items, "\n")
					}
					add := func(filter string, want []string, strict bool) {
						id++
						if typ == "json" && len(want) == 0 {
							strict = false
						}
						nt := strict && (len(want) > 0 && len(want) < n || strings.HasSuffix(filter, "e"))
						exp, _ := json.Marshal(listExpect{Form: "range-" + typ, Want: want, Strict: strict, JSON: typ == "json", NT: nt, Key: fmt.Sprintf("%s n=%d %s", typ, n, filter)})
						cases = append(cases, &proto.Case{ID: fmt.Sprintf("c17-%d", id), Op: "prog", Block: "$l -> " + filter,
							Vars: []proto.Var{{Name: "l", Type: typ, Value: doc}}, Expect: exp, TimeoutMs: 20000})
					}
					for s := 1; s <= n+5; s++ {
						for e := s; e <= n+5; e++ {
							add(fmt.Sprintf("[%d..%d]", s, e), rangeModel(items, s, e, true, true, false), n > 0)
							add(fmt.Sprintf("[%d..%d]e", s, e), rangeModel(items, s, e, true, true, true), n > 0 && e <= n)
						}
						add(fmt.Sprintf("[%d..]", s), rangeModel(items, s, 0, true, false, false), n > 0)
						add(fmt.Sprintf("[%d..]e", s), rangeModel(items, s, 0, true, false, true), n > 0 && s <= n)
						add(fmt.Sprintf("[..%d]", s), rangeModel(items, 0, s, false, true, false), n > 0)
						add(fmt.Sprintf("[..%d]e", s), rangeModel(items, 0, s, false, true, true), n > 0 && s <= n)
					}
					for k := 1; k <= n; k++ {
						add(fmt.Sprintf("[-%d..]", k), items[n-k:], true)
						add(fmt.Sprintf("[-%d..]e", k), items[n-k+1:], true)
					}
					// crash-freedom only
					for _, f := range []string{"[0..2]", "[5..2]", "[..0]", "[-40..]", "[0..0]", "[99..]", "[-1..2]", "[2..-1]", "[..]", "[3..1]e"} {
						add(f, nil, false)
					}
				}
			}
			x.RunAll(pool, cases)
		},
	})

	register(&Property{
		ID:    "C18",
		Level: "exploration",
		Rule: "`a [m..n]` and `ja [m..n]` for integer pairs in [-200,200] (quick: all |m|,|n| <= 12 plus 1500 PRNG pairs; thorough: the whole square), zero-padded pairs where every reading of the statement agrees (both bounds non-negative and written to the same width, or only the numerically lower bound padded and the other written plainly, possibly with more digits than the padding width), and 1-3 expansion blocks (ranges and comma lists) with literal prefixes/suffixes; " +
			"compared with a reference generator (inclusive, ascending or descending, padding, odometer order with the last block fastest); non-trivial = descending, negative, padded or multi-block; distinct by parameter text",
		Assumptions: []string{"padding is asserted when both bounds are written to the same width or only the lower bound is padded; a padded upper bound with a plain lower bound is not asserted (murex does not pad then; the statement does not say which bound decides)", "ja elements are compared after stringification (ja emits numbers or strings depending on the range)"},
		Check:       listCheck("C18"),
		Run: func(x *Ctx) {
			pool := x.NewPool(false)
			var cases []*proto.Case
			id := 0
			add := func(param string, want []string, nt bool) {
				for _, cmd := range []string{"a", "ja"} {
					id++
					exp, _ := json.Marshal(listExpect{Form: cmd, Want: want, Strict: true, JSON: cmd == "ja", NT: nt, Key: cmd + " " + param})
					cases = append(cases, &proto.Case{ID: fmt.Sprintf("c18-%d", id), Op: "prog", Block: cmd + " " + param, Expect: exp, TimeoutMs: 20000})
				}
			}
			rng := func(m, n, width int) []string {
				var out []string
				step := 1
				if n < m {
					step = -1
				}
				for i := m; ; i += step {
					s := strconv.Itoa(i)
					if width > 0 {
						s = fmt.Sprintf("%0*d", width, i)
					}
					out = append(out, s)
					if i == n {
						break
					}
				}
				return out
			}
			if x.Quick() {
				for m := -12; m <= 12; m++ {
					for n := -12; n <= 12; n++ {
						add(fmt.Sprintf("[%d..%d]", m, n), rng(m, n, 0), n < m || m < 0 || n < 0)
					}
				}
				r := x.Rng("pairs", 0)
				for i := 0; i < 1500; i++ {
					m, n := r.Intn(401)-200, r.Intn(401)-200
					add(fmt.Sprintf("[%d..%d]", m, n), rng(m, n, 0), n < m || m < 0 || n < 0)
				}
			} else {
				for m := -200; m <= 200; m++ {
					for n := -200; n <= 200; n++ {
						add(fmt.Sprintf("[%d..%d]", m, n), rng(m, n, 0), n < m || m < 0 || n < 0)
					}
				}
			}
			// padded, same width
			r := x.Rng("padded", 0)
			for i := 0; i < x.Pick(400, 6000); i++ {
				w := 2 + r.Intn(3)
				max := 1
				for j := 0; j < w; j++ {
					max *= 10
				}
				if max > 201 {
					max = 201
				}
				m, n := r.Intn(max), r.Intn(max)
				add(fmt.Sprintf("[%0*d..%0*d]", w, m, w, n), rng(m, n, w), true)
			}
			// only the numerically lower bound is zero-padded; the other bound is written plainly and may
			// have more digits than the padding width (values wider than the width print in full)
			for i := 0; i < x.Pick(400, 6000); i++ {
				w := 2 + r.Intn(2)
				lo := r.Intn(100)
				if w == 3 {
					lo = r.Intn(201)
				}
				hi := lo + 1 + r.Intn(200-lo+1) // strictly above: with equal values neither bound is "the lower one"
				if len(strconv.Itoa(lo)) >= w {
					continue // the lower bound would not be padded at this width
				}
				if r.Intn(2) == 0 {
					add(fmt.Sprintf("[%0*d..%d]", w, lo, hi), rng(lo, hi, w), true)
				} else {
					add(fmt.Sprintf("[%d..%0*d]", hi, w, lo), rng(hi, lo, w), true)
				}
			}
			// multi-block
			for i := 0; i < x.Pick(600, 12000); i++ {
				r := x.Rng("multi", i)
				nb := 1 + r.Intn(3)
				lit := func() string {
					alpha := "abcxyz_-"
					s := ""
					for k := r.Intn(3); k > 0; k-- {
						s += string(alpha[r.Intn(len(alpha))])
					}
					return s
				}
				param := lit()
				if param == "" || param[0] == '-' {
					param = "p" + param
				}
				var blocks [][]string
				for b := 0; b < nb; b++ {
					var vals []string
					if r.Intn(2) == 0 {
						m, n := r.Intn(9)-2, r.Intn(9)-2
						vals = rng(m, n, 0)
						param += fmt.Sprintf("[%d..%d]", m, n)
					} else {
						cnt := 1 + r.Intn(3)
						for k := 0; k < cnt; k++ {
							vals = append(vals, fmt.Sprintf("%c%d", 'k'+rune(k), r.Intn(10)))
						}
						param += "[" + strings.Join(vals, ",") + "]"
					}
					blocks = append(blocks, vals)
					param += lit()
				}
				// reference product: rebuild from the parameter structure
				want := []string{""}
				rest := param
				for _, vals := range blocks {
					open := strings.Index(rest, "[")
					close := strings.Index(rest, "]")
					pre := rest[:open]
					var next []string
					for _, w := range want {
						for _, v := range vals {
							next = append(next, w+pre+v)
						}
					}
					want = next
					rest = rest[close+1:]
				}
				for i := range want {
					want[i] += rest
				}
				add(param, want, true)
			}
			x.RunAll(pool, cases)
		},
	})
}
