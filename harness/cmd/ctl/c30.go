package main

import (
	"encoding/json"
	"fmt"

	"verif/proto"
)

type c30Op struct {
	Op    string          `json:"op"`
	NS    string          `json:"ns,omitempty"`
	Key   string          `json:"key,omitempty"`
	Value json.RawMessage `json:"value,omitempty"`
	TTL   string          `json:"ttl,omitempty"`
	Ms    int             `json:"ms,omitempty"`
}

type c30Res struct {
	Found bool            `json:"found"`
	Value json.RawMessage `json:"value,omitempty"`
}

var c30Keys = []string{"1", "01", "1.0", "1e3", "001", "10", "0x1", "-1", "+1", " 1", "k", "K", "key with space", "k'q", "k\"q", "ключ", "日本", "a/b", "%", "null", "true", "1.50", "1.5", "00", "0", "9007199254740993", "9007199254740992", "long-key-aaaaaaaaaaaaaaaaaaaaaaaaaaaaaaaaaaaaaaaaaaaaaaaaaaaaaaaaaaaaaaaaaaaaaaaaaaaaaaaaaaaa"}
// three built-in namespaces and three of the dynamic `preview_event:<event name>` kind that differ
// only in punctuation
var c30NS = []string{"preview_command", "man_summary", "hint_summary", "preview_event:git-log", "preview_event:git_log", "preview_event_git.log"}

type c30Entry struct {
	val  string // JSON of the latest value
	ttl  string
	gone bool // a short entry that has certainly expired (slept past it)
}

func init() {
	register(&Property{
		ID:    "C30",
		Level: "exploration",
		Rule: "sequential histories of 10-40 operations (Write with TTL class dead = one hour ago, live = two hours ahead, short = one second ahead; Read; Trim; Clear; a 3 s sleep in a quarter of the histories) over 6 namespaces (three built-in ones and three `preview_event:<name>`-style ones that differ only in punctuation) and keys that include numeric look-alikes (1, 01, 1.0, 1e3, 0x1, 00, 2^53+1 ...), case variants, quotes, spaces, non-ASCII and long keys, values of several JSON types carrying a unique write id, on a private database file per worker; " +
			"oracle: model map (namespace,key) -> (latest value, TTL class): live => that value; dead => nothing; short => that value or nothing inside the window and nothing after the sleep; never the value of another key or namespace; nothing after Clear; non-trivial = a read of a key written twice or having a look-alike sibling key / the same key in another namespace; distinct by history",
		Assumptions: []string{"TTL classes are chosen so that the outcome does not depend on the exact clock (except inside the one second window, where both outcomes are accepted)", "the cache is process-global: one history at a time per worker, each starting with Clear"},
		Technique:   "runtime monitoring: API history against a reference map with unique values (foreign or stale values are identifiable)",
		Run: func(x *Ctx) {
			pool := x.NewPool(false)
			n := x.Pick(160, 10000) // every operation opens the sqlite file: ~0.25 s per history
			var cases []*proto.Case
			for i := 0; i < n; i++ {
				r := x.Rng("hist", i)
				var ops []c30Op
				// a few keys per history, biased towards look-alikes
				nk := 2 + r.Intn(4)
				keys := make([]string, nk)
				base := r.Intn(len(c30Keys))
				for k := range keys {
					if r.Intn(2) == 0 {
						keys[k] = c30Keys[(base+k)%len(c30Keys)]
					} else {
						keys[k] = c30Keys[r.Intn(len(c30Keys))]
					}
				}
				slept := false
				nops := 10 + r.Intn(31)
				for k := 0; k < nops; k++ {
					ns, key := c30NS[r.Intn(len(c30NS))], keys[r.Intn(nk)]
					switch c := r.Intn(20); {
					case c < 8:
						var v any
						id := fmt.Sprintf("w%d-%d", i, k)
						switch r.Intn(4) {
						case 0:
							v = id
						case 1:
							v = map[string]any{"id": id, "n": r.Intn(100), "f": 1.5}
						case 2:
							v = []any{id, 1.0, true, nil}
						default:
							v = map[string]any{"id": id, "s": c30Keys[r.Intn(len(c30Keys))]}
						}
						b, _ := json.Marshal(v)
						ttl := "live"
						switch t := r.Intn(10); {
						case t < 2:
							ttl = "dead"
						case t < 3 && i%4 == 0:
							ttl = "short"
						}
						ops = append(ops, c30Op{Op: "write", NS: ns, Key: key, Value: b, TTL: ttl})
					case c < 17:
						ops = append(ops, c30Op{Op: "read", NS: ns, Key: key})
					case c < 18:
						ops = append(ops, c30Op{Op: "trim"})
					case c < 19 && i%4 == 0 && !slept:
						ops = append(ops, c30Op{Op: "sleep", Ms: 3000})
						slept = true
					case c < 19:
						ops = append(ops, c30Op{Op: "read", NS: ns, Key: key})
					default:
						ops = append(ops, c30Op{Op: "clear"})
					}
				}
				// read everything back at the end
				for _, ns := range c30NS {
					for _, key := range keys {
						ops = append(ops, c30Op{Op: "read", NS: ns, Key: key})
					}
				}
				args, _ := json.Marshal(ops)
				cases = append(cases, &proto.Case{ID: fmt.Sprintf("c30-%d", i), Op: "c30.hist", Args: args, TimeoutMs: 120000})
			}
			x.RunAll(pool, cases)
		},
		Check: func(x *Ctx, c *proto.Case, r *proto.Result) {
			if x.Bad(c, r) {
				return
			}
			var ops []c30Op
			var res []c30Res
			json.Unmarshal(c.Args, &ops)
			if err := json.Unmarshal(r.Out, &res); err != nil || len(res) != len(ops) {
				x.Inconclusive("malformed c30 result")
				return
			}
			model := map[string]*c30Entry{}
			writes := map[string]int{}
			keysSeen := map[string]bool{}
			owner := map[string]string{} // value JSON -> "ns\x00key" that wrote it
			nt := false
			for i, op := range ops {
				id := op.NS + "\x00" + op.Key
				switch op.Op {
				case "write":
					// normalise the value through JSON so it compares with what is read back
					var v any
					json.Unmarshal(op.Value, &v)
					b, _ := json.Marshal(v)
					model[id] = &c30Entry{val: string(b), ttl: op.TTL}
					writes[id]++
					keysSeen[op.Key] = true
					owner[string(b)] = id
				case "clear":
					model = map[string]*c30Entry{}
				case "trim":
					for k, e := range model {
						if e.ttl == "dead" || e.gone {
							delete(model, k)
						}
					}
				case "sleep":
					for _, e := range model {
						if e.ttl == "short" {
							e.gone = true
						}
					}
				case "read":
					x.Count("reads", 1)
					if writes[id] >= 2 || len(keysSeen) >= 2 {
						nt = true
					}
					e := model[id]
					got := res[i]
					fail := func(sig, msg string) {
						x.Viol("cache:"+sig, fmt.Sprintf("%s (read #%d of namespace %q key %q) — history: %s", msg, i, op.NS, op.Key, trunc(string(c.Args), 1200)), c, got, e)
					}
					var gv string
					if got.Found {
						var v any
						json.Unmarshal(got.Value, &v)
						b, _ := json.Marshal(v)
						gv = string(b)
					}
					switch {
					case got.Found && (e == nil || gv != e.val):
						who := "a value that was never written"
						if o, ok := owner[gv]; ok {
							if o == id {
								who = "a stale value of the same key"
								fail("stale-value", "read returned "+who+" "+gv)
							} else {
								fail("foreign-value", fmt.Sprintf("read returned %s, which was written under %q", gv, o))
							}
						} else {
							fail("unknown-value", "read returned "+who+": "+gv)
						}
						return
					case got.Found && (e.ttl == "dead" || e.gone):
						fail("expired-value-returned", "read returned a value whose TTL has expired: "+gv)
						return
					case !got.Found && e != nil && e.ttl == "live":
						fail("live-value-missing", "read returned nothing although the latest write is live: "+e.val)
						return
					}
				}
			}
			if nt {
				x.Nontrivial(string(c.Args))
			}
			if len(ops) < 90 {
				// the read-everything-back tail (6 namespaces x keys) is left out of the sample
				head := ops
				if len(head) > 24 {
					head = head[:24]
				}
				x.Sample(map[string]any{"operations": len(ops), "first_operations": head})
			}
		},
	})
}
