package main

import (
	"bytes"
	"encoding/json"
	"fmt"
	"math/rand"
	"strings"

	"verif/proto"
)

type c33Expect struct {
	Kind      string `json:"kind"` // route | file
	Redir     string `json:"redir"`
	Pos       string `json:"pos"`
	Stdout    string `json:"stdout"`
	Stderr    string `json:"stderr"`
	File      string `json:"file,omitempty"`
	FName     string `json:"fname,omitempty"`
	Alt       string `json:"alt,omitempty"`     // another acceptable file content (overlapping appenders)
	Partial   string `json:"partial,omitempty"` // content while the background appender has not finished yet
	Size      int    `json:"size"`
	Writer    string `json:"writer,omitempty"`
	AltStdout string `json:"alt_stdout,omitempty"` // the other acceptable order when an external program's two streams share a destination
	AltStderr string `json:"alt_stderr,omitempty"`
}

func c33Payload(r *rand.Rand, tag string, max int) string {
	n := 1 + r.Intn(max)
	alpha := "abcdefghijklmnopqrstuvwxyzABCDEFGHIJKLMNOPQRSTUVWXYZ0123456789 .,;:!?#@%&*()[]{}<>|/\\-_=+~'\"$\tééß日"
	rs := []rune(alpha)
	var b strings.Builder
	b.WriteString(tag + ":")
	for b.Len() < n {
		if r.Intn(40) == 0 {
			b.WriteString("\n")
			continue
		}
		b.WriteRune(rs[r.Intn(len(rs))])
	}
	s := b.String()
	for strings.HasSuffix(s, "\n") || strings.HasSuffix(s, "\r") {
		s = s[:len(s)-1] + "x"
	}
	s = noAnsiConst(s)
	return s
}

func init() {
	register(&Property{
		ID:    "C33",
		Level: "exploration",
		Rule: "a generated function writes payload O to stdout then payload E to stderr (PRNG text incl. punctuation, tabs, newlines, non-ASCII; sizes 1 B .. 200 KiB quick / 2 MiB thorough); it (and, for a third of the small payloads, an external program writing the same two payloads) is called with each of the 9 consistent combinations of {none,<err>,<null>} x {none,<!out>,<!null>} at the end of a chain, before `;` and before `|` (the next stage tags what it read); `|> file` and `>> file` with random previous contents, the file read back by the harness; two overlapping appenders (a background `>>` that has opened the file and waits behind a named pipe while the foreground appends to the same file: both payloads must be in the file, in either order); " +
			"oracle: the routing table of the statement with conservation (each payload appears exactly on the stream/file the table says and nowhere else); non-trivial = at least one redirection token or a file; distinct by (redirection, position, payloads)",
		Assumptions: []string{"payloads are passed through variables and do not end in CR/LF (`out $v` strips one)", "both payloads are written by sequential commands, so O precedes E when they share a stream"},
		Run: func(x *Ctx) {
			pool := x.NewPool(false)
			reps := x.Pick(50, 2000)
			maxSize := x.Pick(200<<10, 2<<20)
			var cases []*proto.Case
			id := 0
			for rep := 0; rep < reps; rep++ {
				r := x.Rng("payload", rep)
				size := 60
				switch {
				case rep%25 == 7:
					size = maxSize
				case rep%5 == 0:
					size = 5000
				}
				po, pe := c33Payload(r, "O", size), c33Payload(r, "E", size)
				// the writer is a murex function; for a third of the small payloads also an external
				// program (its two streams reach murex through separate descriptors, so when both are
				// routed to one destination either order of the two payloads is accepted)
				writers := []string{"c33oe"}
				if rep%3 == 1 && size <= 5000 {
					writers = append(writers, "exitsig")
				}
				for _, writer := range writers {
					for _, so := range []string{"", "<err>", "<null>"} {
						for _, se := range []string{"", "<!out>", "<!null>"} {
							for _, pos := range []string{"end", "semicolon", "pipe"} {
								id++
								redir := strings.TrimSpace(so + " " + se)
								if r.Intn(2) == 0 && so != "" && se != "" {
									redir = se + " " + so
								}
								var stdoutDest, stderrDest strings.Builder // what goes to STDOUT_DEST and to the block's stderr
								switch so {
								case "":
									stdoutDest.WriteString(po + "\n")
								case "<err>":
									stderrDest.WriteString(po + "\n")
								}
								switch se {
								case "":
									stderrDest.WriteString(pe + "\n")
								case "<!out>":
									stdoutDest.WriteString(pe + "\n")
								}
								e := c33Expect{Kind: "route", Redir: redir, Pos: pos, Stderr: stderrDest.String(), Size: len(po) + len(pe), Writer: writer}
								block := "function c33oe { out $1; err $2 }\nfunction c33tg { <stdin> -> set s; out \"[$s]\" }\n"
								call := "c33oe " + redir + " $c33po $c33pe"
								altOut, altErr := stdoutDest.String(), stderrDest.String()
								if writer == "exitsig" {
									call = "exitsig " + redir + " oe 0 $c33po $c33pe"
									if so == "" && se == "<!out>" {
										altOut = pe + "\n" + po + "\n"
									}
									if so == "<err>" && se == "" {
										altErr = pe + "\n" + po + "\n"
									}
								}
								e.AltStderr = altErr
								switch pos {
								case "end":
									block += call + "\n"
									e.Stdout = stdoutDest.String()
									e.AltStdout = altOut
								case "semicolon":
									block += call + "; out TAIL\n"
									e.Stdout = stdoutDest.String() + "TAIL\n"
									e.AltStdout = altOut + "TAIL\n"
								case "pipe":
									block += call + " | c33tg\n"
									e.Stdout = "[" + strings.TrimSuffix(stdoutDest.String(), "\n") + "]\n"
									e.AltStdout = "[" + strings.TrimSuffix(altOut, "\n") + "]\n"
								}
								exp, _ := json.Marshal(e)
								// payloads above the 1 MiB stream limit need the harness to read while the program runs
								cases = append(cases, &proto.Case{ID: fmt.Sprintf("c33-%d", id), Op: "prog", Block: block, Expect: exp, TimeoutMs: 60000, Drain: maxSize > 900<<10,
									Vars: []proto.Var{{Name: "c33po", Type: "str", Value: po}, {Name: "c33pe", Type: "str", Value: pe}}})
							}
						}
					}
				}
			}
			// files
			nf := x.Pick(300, 10000)
			for i := 0; i < nf; i++ {
				r := x.Rng("file", i)
				size := 80
				if i%20 == 3 {
					size = maxSize
				}
				prev, p1, p2 := c33Payload(r, "P", size), c33Payload(r, "A", size), c33Payload(r, "B", 200)
				fname := fmt.Sprintf("c33_%d_%d.dat", x.Seed, i)
				id++
				var block, want, mode string
				switch i % 4 {
				case 0:
					mode = "truncate-new"
					block = "out $a |> " + fname + "\n"
					want = p1 + "\n"
				case 1:
					mode = "truncate-existing"
					block = "out $prev |> " + fname + "\nout $a |> " + fname + "\n"
					want = p1 + "\n"
				case 2:
					mode = "append-existing"
					block = "out $prev |> " + fname + "\nout $a >> " + fname + "\nout $b >> " + fname + "\n"
					want = prev + "\n" + p1 + "\n" + p2 + "\n"
				default:
					mode = "append-new"
					block = "out $a >> " + fname + "\nout $b >> " + fname + "\n"
					want = p1 + "\n" + p2 + "\n"
				}
				e := c33Expect{Kind: "file", Redir: mode, Pos: "file", File: want, FName: fname, Size: len(want)}
				exp, _ := json.Marshal(e)
				cases = append(cases, &proto.Case{ID: fmt.Sprintf("c33-%d", id), Op: "prog", Block: block, Expect: exp, TimeoutMs: 60000, ReadFiles: []string{fname},
					Vars: []proto.Var{{Name: "prev", Type: "str", Value: prev}, {Name: "a", Type: "str", Value: p1}, {Name: "b", Type: "str", Value: p2}}})
			}
			// two appenders that overlap: a background `>>` that has opened the file and waits for its
			// input (gated by a named pipe) while the foreground appends to the same file
			no := x.Pick(16, 400)
			for i := 0; i < no; i++ {
				r := x.Rng("overlap", i)
				prev, p1, p2 := c33Payload(r, "P", 60), c33Payload(r, "A", 60), c33Payload(r, "B", 60)
				fname := fmt.Sprintf("c33o_%d_%d.dat", x.Seed, i)
				gate := fmt.Sprintf("c33g_%d_%d", x.Seed, i)
				id++
				block := "out $prev |> " + fname + "\npipe " + gate + "\nbg { <" + gate + "> >> " + fname + " }\n" +
					"a [1..400] -> count -> null\nout $b >> " + fname + "\nout $a -> <" + gate + ">\n!pipe " + gate + "\n"
				e := c33Expect{Kind: "file", Redir: "append-overlapping", Pos: "file", FName: fname,
					File: prev + "\n" + p2 + "\n" + p1 + "\n", Alt: prev + "\n" + p1 + "\n" + p2 + "\n", Partial: prev + "\n" + p2 + "\n"}
				e.Size = len(e.File)
				exp, _ := json.Marshal(e)
				cases = append(cases, &proto.Case{ID: fmt.Sprintf("c33-%d", id), Op: "prog", Block: block, Expect: exp, TimeoutMs: 60000, IdleMs: 3500, ReadFiles: []string{fname},
					Vars: []proto.Var{{Name: "prev", Type: "str", Value: prev}, {Name: "a", Type: "str", Value: p1}, {Name: "b", Type: "str", Value: p2}}})
			}
			x.RunAll(pool, cases)
		},
		Check: func(x *Ctx, c *proto.Case, r *proto.Result) {
			if x.Bad(c, r) {
				return
			}
			var e c33Expect
			json.Unmarshal(c.Expect, &e)
			run := r.Runs[0]
			if e.Redir != "" {
				x.Nontrivial(c.Block + "\x00" + c.Vars[0].Value[:min(40, len(c.Vars[0].Value))])
			}
			x.Count("cases "+e.Kind+" "+e.Pos, 1)
			x.Count("payload_bytes", int64(e.Size))
			if e.Size < 200 {
				x.Sample(map[string]any{"program": c.Block, "expected_stdout": e.Stdout, "expected_stderr": e.Stderr, "expected_file": e.File})
			}
			if e.Kind == "file" {
				got, ok := run.Files[e.FName]
				if e.Redir == "append-overlapping" && ok {
					switch string(got) {
					case e.File, e.Alt:
						x.Count("overlapping_appends_both_present", 1)
						return
					case e.Partial:
						x.Inconclusive("the background appender had not finished when the file was read")
						return
					}
				}
				if !ok || !bytes.Equal(got, []byte(e.File)) || len(run.Stdout) != 0 {
					x.Viol("file:"+e.Redir, fmt.Sprintf("%s: program\n%s\nleft file (present=%v) with %d bytes %q, expected %d bytes %q; stdout=%q stderr=%q", e.Redir, c.Block, ok, len(got), trunc(string(got), 200), len(e.File), trunc(e.File, 200), trunc(string(run.Stdout), 100), trunc(string(run.Stderr), 300)), c, trunc(string(got), 3000), trunc(e.File, 3000))
				}
				return
			}
			if e.Writer == "exitsig" {
				x.Count("cases route external writer", 1)
			}
			if (string(run.Stdout) != e.Stdout && string(run.Stdout) != e.AltStdout) || (string(run.Stderr) != e.Stderr && string(run.Stderr) != e.AltStderr) {
				what := "stdout"
				if string(run.Stdout) == e.Stdout {
					what = "stderr"
				}
				lost := ""
				total := string(run.Stdout) + string(run.Stderr)
				if len(total) < len(e.Stdout)+len(e.Stderr) {
					lost = ":bytes-lost"
				}
				wr := ""
				if e.Writer == "exitsig" {
					wr = "external:"
				}
				x.Viol(fmt.Sprintf("route:%s%s:%s:%s%s", wr, strings.ReplaceAll(e.Redir, " ", ""), e.Pos, what, lost), fmt.Sprintf("`"+e.Writer+" %s` at position %s gave stdout=%q stderr=%q; routing table says stdout=%q stderr=%q", e.Redir, e.Pos, trunc(string(run.Stdout), 200), trunc(string(run.Stderr), 200), trunc(e.Stdout, 200), trunc(e.Stderr, 200)), c,
					map[string]string{"stdout": trunc(string(run.Stdout), 3000), "stderr": trunc(string(run.Stderr), 3000)}, map[string]string{"stdout": trunc(e.Stdout, 3000), "stderr": trunc(e.Stderr, 3000)})
			}
		},
	})
}
