package main

import (
	"encoding/json"
	"fmt"
	"strings"

	"verif/proto"
)

type chainExpect struct {
	Mode    string      `json:"mode"` // normal | try | trypipe
	Wrapper string      `json:"wrapper"`
	Units   []Unit      `json:"units"`
	Want    chainResult `json:"want"`
	Body    string      `json:"body"`
}

func chainCheck(prop string) func(x *Ctx, c *proto.Case, r *proto.Result) {
	return func(x *Ctx, c *proto.Case, r *proto.Result) {
		if x.Bad(c, r) {
			return
		}
		var e chainExpect
		json.Unmarshal(c.Expect, &e)
		if len(r.Runs) != 1 {
			x.Inconclusive("no run")
			return
		}
		run := r.Runs[0]
		if e.Want.Ambiguous {
			x.Count("unspecified_skipped_pipeline_not_asserted", 1)
			return
		}
		ops, logic, _ := chainStats(e.Units)
		nontrivial := false
		switch prop {
		case "C04":
			nontrivial = ops >= 2 && logic >= 1
		case "C05":
			nontrivial = e.Want.Skipped > 0 || e.Want.Ran < countCmds(e.Units) || strings.Contains(e.Body, "||")
		}
		if nontrivial {
			x.Nontrivial(e.Mode + "|" + e.Wrapper + "|" + e.Body)
		}
		x.Count("commands_modelled_run", int64(e.Want.Ran))
		x.Count("commands_modelled_skipped", int64(e.Want.Skipped))
		x.SetAdd("operator_words", opWord(e.Units))
		x.Sample(map[string]any{"mode": e.Mode, "wrapper": e.Wrapper, "program": e.Body, "stdout": e.Want.Stdout, "exit": e.Want.Exit})

		got := chainResult{Stdout: string(run.Stdout), Stderr: string(run.Stderr), Exit: run.Exit}
		if got.Stdout != e.Want.Stdout || got.Exit != e.Want.Exit || got.Stderr != e.Want.Stderr || run.Err != "" {
			sig := chainSignature(prop, &e, &got)
			x.Viol(sig, fmt.Sprintf("%s mode, wrapper %s: program %q gave stdout=%q stderr=%q exit=%d err=%q, model says stdout=%q stderr=%q exit=%d",
				e.Mode, e.Wrapper, e.Body, got.Stdout, got.Stderr, got.Exit, run.Err, e.Want.Stdout, e.Want.Stderr, e.Want.Exit), c, got, e.Want)
		}
	}
}

func countCmds(units []Unit) int {
	n := 0
	for _, u := range units {
		n += len(u.Stages)
	}
	return n
}

func opWord(units []Unit) string {
	var w []string
	for i, u := range units {
		if i > 0 {
			w = append(w, strings.ReplaceAll(u.Join, "\n", "nl"))
		}
		w = append(w, u.Pipes...)
	}
	return strings.Join(w, " ")
}

// chainSignature: mode + which kind of discrepancy + shape of the first
// divergence (the operator word around the first command whose execution
// status differs between model and observation)
func chainSignature(prop string, e *chainExpect, got *chainResult) string {
	kind := "exit"
	switch {
	case got.Stdout != e.Want.Stdout:
		// did a command run that the model skipped, or the reverse?
		wantTags := tagsOf(e.Want.Stdout)
		gotTags := tagsOf(got.Stdout)
		extra, missing := "", ""
		for t := range gotTags {
			if !wantTags[t] {
				extra = t
			}
		}
		for t := range wantTags {
			if !gotTags[t] {
				missing = t
			}
		}
		switch {
		case extra != "" && missing == "":
			kind = "ran-but-should-skip:" + joinBefore(e.Units, extra)
		case missing != "" && extra == "":
			kind = "skipped-but-should-run:" + joinBefore(e.Units, missing)
		default:
			kind = "stdout"
		}
	case got.Stderr != e.Want.Stderr:
		kind = "stderr"
	}
	return e.Mode + ":" + kind
}

func tagsOf(s string) map[string]bool {
	m := map[string]bool{}
	for _, l := range strings.Split(s, "\n") {
		l = strings.Trim(l, "<>")
		if l != "" {
			m[l] = true
		}
	}
	return m
}

// joinBefore: the operator joining the command carrying tag, and its
// predecessor's operator (context of two)
func joinBefore(units []Unit, tag string) string {
	for i, u := range units {
		for _, s := range u.Stages {
			if s.Tag == tag {
				prev := ""
				if i > 0 {
					prev = units[i-1].Join
				}
				return strings.ReplaceAll(prev+","+u.Join, "\n", "nl")
			}
		}
	}
	return "?"
}

func init() {
	register(&Property{
		ID:    "C04",
		Level: "exploration",
		Rule: "PRNG chains of 1-8 leaf commands (out / exit-code functions vf0..vf7 and, in a third of the chains, vfm1 / vfm3 ending with a negative exit number / err / stdin-tagging function vtg; in half of the chains some commands carry an argument sub-shell `${err tag}` whose stderr line shows whether the arguments of a skipped command were evaluated) joined by ; newline && || and | -> pipelines, run at top level, as a function body and as a function called twice, compared with a reference interpreter of the normal run mode; " +
			"a case in which a whole multi-stage pipeline is skipped by &&/|| is executed but not asserted (the statement is silent on what its later stages do); non-trivial = at least 2 operators and at least one && or ||; distinct by program text",
		Assumptions: []string{"leaf commands out/err/return/<stdin>->set behave as documented (they are the observation channel)", "skipped multi-stage pipelines are not asserted"},
		Check:       chainCheck("C04"),
		Run: func(x *Ctx) {
			pool := x.NewPool(false)
			n := x.Pick(4000, 150000)
			var cases []*proto.Case
			// exhaustive operator words up to length 3 (quick) / 5 (thorough) over exit patterns
			cases = append(cases, exhaustiveChains(x, x.Pick(3, 4))...)
			for i := 0; i < n; i++ {
				r := x.Rng("chain", i)
				// half of the chains carry argument sub-shells with a visible side effect:
				// a skipped command must not evaluate them either
				chainSubEffects = i%2 == 1
				// a third have functions ending with a negative exit number: not zero, so a failure
				chainNegExits = i%3 == 0
				units := genChain(r, 8, true)
				chainSubEffects, chainNegExits = false, false
				wrapper := []string{"plain", "function", "function-twice"}[r.Intn(3)]
				cases = append(cases, mkChainCase(fmt.Sprintf("c04-%d", i), "normal", wrapper, units))
			}
			x.RunAll(pool, cases)
		},
	})

	register(&Property{
		ID:    "C05",
		Level: "exploration",
		Rule: "the same PRNG chains (1-8 commands, ; && || |) wrapped in try {}, trypipe {}, and functions starting with `runmode try|trypipe function` (a quarter of those called twice in the same process), and a quarter also as a block of one mode nested in a block or `runmode ... function` scope of the other mode (the innermost block's mode governs), compared with reference models of the two modes; " +
			"a case in which a multi-stage ||-alternative is skipped is executed but not asserted; non-trivial = the chain contains || or a command fails before the end; distinct by (wrapper, program text)",
		Assumptions: []string{"leaf commands out/err/return/<stdin>->set behave as documented", "tryerr/trypipeerr are not part of the statement and are not generated"},
		Check:       chainCheck("C05"),
		Run: func(x *Ctx) {
			pool := x.NewPool(false)
			n := x.Pick(4000, 100000)
			var cases []*proto.Case
			for i := 0; i < n; i++ {
				r := x.Rng("chain", i)
				units := genChain(r, 8, true)
				ws := []string{"try", "trypipe", "fn-try", "fn-trypipe"}
				if i%4 == 0 {
					ws = append(ws, "fn-try-twice", "fn-trypipe-twice")
				}
				if i%4 == 1 {
					// a block of one mode inside a scope of the other: the innermost block's mode governs
					ws = append(ws, "try-in-fn-trypipe", "trypipe-in-fn-try", "try-in-trypipe", "trypipe-in-try")
				}
				for _, w := range ws {
					mode := "try"
					if strings.Contains(w, "trypipe") {
						mode = "trypipe"
					}
					if strings.HasPrefix(w, "try-in-") {
						mode = "try"
					}
					if strings.HasPrefix(w, "trypipe-in-") {
						mode = "trypipe"
					}
					cases = append(cases, mkChainCase(fmt.Sprintf("c05-%d-%s", i, w), mode, w, units))
				}
			}
			// targeted family: runs of consecutive || after success and after failure
			k := 0
			for _, head := range []int{0, 3} {
				for alts := 1; alts <= 4; alts++ {
					for mask := 0; mask < 1<<alts; mask++ {
						units := []Unit{{Stages: []Stage{{Kind: "fn", Tag: "h0", Exit: head}}}}
						for a := 0; a < alts; a++ {
							ex := 0
							if mask&(1<<a) != 0 {
								ex = 2
							}
							units = append(units, Unit{Join: "||", Stages: []Stage{{Kind: "fn", Tag: fmt.Sprintf("a%d", a+1), Exit: ex}}})
						}
						units = append(units, Unit{Join: ";", Stages: []Stage{{Kind: "out", Tag: "z9"}}})
						for _, w := range []string{"try", "trypipe", "fn-try", "fn-trypipe"} {
							mode := "try"
							if strings.HasSuffix(w, "trypipe") {
								mode = "trypipe"
							}
							cases = append(cases, mkChainCase(fmt.Sprintf("c05-or-%d-%s", k, w), mode, w, units))
						}
						k++
					}
				}
			}
			x.RunAll(pool, cases)
		},
	})
}

func mkChainCase(id, mode, wrapper string, units []Unit) *proto.Case {
	body := chainSrc(units)
	var want chainResult
	switch mode {
	case "normal":
		want = modelNormal(units)
	case "try":
		want = modelTry(units)
	case "trypipe":
		want = modelTryPipe(units)
	}
	fname := "vw_" + strings.NewReplacer("-", "_").Replace(id)
	var block string
	switch wrapper {
	case "plain":
		block = chainPrelude + body
	case "function":
		block = chainPrelude + "function " + fname + " {\n" + body + "\n}\n" + fname
	case "try":
		block = chainPrelude + "try {\n" + body + "\n}"
	case "trypipe":
		block = chainPrelude + "trypipe {\n" + body + "\n}"
	case "fn-try":
		block = chainPrelude + "function " + fname + " {\nrunmode try function\n" + body + "\n}\n" + fname
	case "fn-trypipe":
		block = chainPrelude + "function " + fname + " {\nrunmode trypipe function\n" + body + "\n}\n" + fname
	case "try-in-fn-trypipe":
		block = chainPrelude + "function " + fname + " {\nrunmode trypipe function\ntry {\n" + body + "\n}\n}\n" + fname
	case "trypipe-in-fn-try":
		block = chainPrelude + "function " + fname + " {\nrunmode try function\ntrypipe {\n" + body + "\n}\n}\n" + fname
	case "try-in-trypipe":
		block = chainPrelude + "trypipe {\ntry {\n" + body + "\n}\n}"
	case "trypipe-in-try":
		block = chainPrelude + "try {\ntrypipe {\n" + body + "\n}\n}"
	case "function-twice", "fn-try-twice", "fn-trypipe-twice":
		// the same function body executed twice in one process: the second run must behave like the first
		rm := map[string]string{"function-twice": "", "fn-try-twice": "runmode try function\n", "fn-trypipe-twice": "runmode trypipe function\n"}[wrapper]
		block = chainPrelude + "function " + fname + " {\n" + rm + body + "\n}\n" + fname + "\n" + fname
		want.Stdout += want.Stdout
		want.Stderr += want.Stderr
		want.Ran *= 2
		want.Skipped *= 2
	}
	exp, _ := json.Marshal(chainExpect{Mode: mode, Wrapper: wrapper, Units: units, Want: want, Body: body})
	return &proto.Case{ID: id, Op: "prog", Block: block, Expect: exp, TimeoutMs: 30000}
}

// exhaustiveChains enumerates every operator word of length <= maxOps over
// {; && ||} with every exit pattern over {0, 3}
func exhaustiveChains(x *Ctx, maxOps int) []*proto.Case {
	var out []*proto.Case
	ops := []string{";", "&&", "||"}
	k := 0
	for n := 1; n <= maxOps; n++ {
		words := 1
		for i := 0; i < n; i++ {
			words *= len(ops)
		}
		for w := 0; w < words; w++ {
			for mask := 0; mask < 1<<(n+1); mask++ {
				var units []Unit
				ww := w
				for i := 0; i <= n; i++ {
					ex := 0
					if mask&(1<<i) != 0 {
						ex = 3
					}
					u := Unit{Stages: []Stage{{Kind: "fn", Tag: fmt.Sprintf("e%d", i), Exit: ex}}}
					if i > 0 {
						u.Join = ops[ww%len(ops)]
						ww /= len(ops)
					}
					units = append(units, u)
				}
				out = append(out, mkChainCase(fmt.Sprintf("c04-x-%d", k), "normal", "plain", units))
				k++
			}
		}
	}
	x.Count("exhaustive_operator_word_cases", int64(k))
	return out
}
