package main

import (
	"encoding/json"
	"fmt"
	"math/rand"
	"strings"

	"verif/proto"
)

// mini control-flow language for C39
type cfNode struct {
	Kind string    // out foreach while if break continue return call
	Tag  string    // out marker
	Var  string    // loop variable
	N    int       // loop count / return number / compare constant
	Name string    // break/continue target, call target
	CVar string    // if: variable compared
	Body []*cfNode // block body
	Else []*cfNode
	// Direct: a continue whose immediately enclosing block is its target loop
	Direct bool
	// Show: a call followed by `exitnum`, which prints the exit number the function ended with
	Show bool
}

type cfFunc struct {
	Name string
	Body []*cfNode
}

type cfGen struct {
	r      *rand.Rand
	id     string
	nvar   int
	ntag   int
	funcs  []*cfFunc
	budget int
	// exitKnown: functions whose exit number the model knows however they end
	// (last statement is `out` or `return`, no `break <function>`)
	exitKnown map[string]bool
}

type cfScope struct {
	blocks   []string // enclosing block names, innermost last (within the current function)
	loopVars []string // variables of enclosing loops
	fn       string
}

func (g *cfGen) tag() string { g.ntag++; return fmt.Sprintf("m%d", g.ntag) }

func (g *cfGen) stmts(sc cfScope, depth int, callable []string) []*cfNode {
	n := 1 + g.r.Intn(4)
	var out []*cfNode
	for i := 0; i < n && g.budget > 0; i++ {
		g.budget--
		k := g.r.Intn(100)
		switch {
		case k < 18 || depth <= 0:
			out = append(out, &cfNode{Kind: "out", Tag: g.tag()})
		case k < 43:
			g.nvar++
			v := fmt.Sprintf("v%d", g.nvar)
			s2 := cfScope{blocks: append(append([]string{}, sc.blocks...), "foreach"), loopVars: append(append([]string{}, sc.loopVars...), v), fn: sc.fn}
			out = append(out, &cfNode{Kind: "foreach", Var: v, N: 1 + g.r.Intn(3), Body: g.stmts(s2, depth-1, callable)})
		case k < 56:
			g.nvar++
			v := fmt.Sprintf("w%d", g.nvar)
			s2 := cfScope{blocks: append(append([]string{}, sc.blocks...), "while"), loopVars: append(append([]string{}, sc.loopVars...), v), fn: sc.fn}
			out = append(out, &cfNode{Kind: "while", Var: v, N: 1 + g.r.Intn(3), Body: g.stmts(s2, depth-1, callable)})
		case k < 85:
			// conditional (or unconditional) control statement
			var ctl *cfNode
			var targets []string
			targets = append(targets, sc.blocks...)
			targets = append(targets, sc.fn)
			loops := []string{}
			for _, b := range sc.blocks {
				if b == "foreach" || b == "while" {
					loops = append(loops, b)
				}
			}
			switch c := g.r.Intn(10); {
			case c < 4:
				ctl = &cfNode{Kind: "break", Name: targets[g.r.Intn(len(targets))]}
			case c < 7 && len(loops) > 0:
				ctl = &cfNode{Kind: "continue", Name: loops[g.r.Intn(len(loops))]}
			default:
				ctl = &cfNode{Kind: "return", N: g.r.Intn(5)}
			}
			if len(sc.loopVars) > 0 && g.r.Intn(8) != 0 {
				cv := sc.loopVars[g.r.Intn(len(sc.loopVars))]
				// inside the if, "if" is an enclosing block too
				if ctl.Kind == "break" && g.r.Intn(5) == 0 {
					ctl.Name = "if"
				}
				body := []*cfNode{}
				if g.r.Intn(2) == 0 {
					body = append(body, &cfNode{Kind: "out", Tag: g.tag()})
				}
				body = append(body, ctl)
				if g.r.Intn(3) == 0 {
					body = append(body, &cfNode{Kind: "out", Tag: g.tag()})
				}
				node := &cfNode{Kind: "if", CVar: cv, N: 1 + g.r.Intn(3), Body: body}
				if g.r.Intn(4) == 0 {
					node.Else = []*cfNode{{Kind: "out", Tag: g.tag()}}
				}
				out = append(out, node)
			} else {
				if ctl.Kind == "continue" && len(sc.blocks) > 0 && sc.blocks[len(sc.blocks)-1] == ctl.Name {
					ctl.Direct = true
				}
				out = append(out, ctl)
				if g.r.Intn(2) == 0 {
					out = append(out, &cfNode{Kind: "out", Tag: g.tag()})
				}
			}
		case k < 93 && len(callable) > 0:
			call := &cfNode{Kind: "call", Name: callable[g.r.Intn(len(callable))]}
			out = append(out, call)
			switch c := g.r.Intn(6); {
			case c < 2 && g.exitKnown[call.Name]:
				call.Show = true
			case c < 4:
				// a return directly after a command that may have ended non-zero
				out = append(out, &cfNode{Kind: "return", N: g.r.Intn(4) - 1})
			}
		default:
			out = append(out, &cfNode{Kind: "out", Tag: g.tag()})
		}
	}
	return out
}

func genCF(r *rand.Rand, id string) []*cfFunc {
	g := &cfGen{r: r, id: id, budget: 22, exitKnown: map[string]bool{}}
	nh := r.Intn(3)
	var names []string
	for i := nh; i >= 1; i-- {
		name := fmt.Sprintf("c39h%d_%s", i, id)
		f := &cfFunc{Name: name}
		f.Body = g.stmts(cfScope{fn: name}, 2, names)
		if g.r.Intn(3) > 0 {
			if g.r.Intn(2) == 0 {
				f.Body = append(f.Body, &cfNode{Kind: "out", Tag: g.tag()})
			} else {
				f.Body = append(f.Body, &cfNode{Kind: "return", N: g.r.Intn(5) - 1})
			}
		}
		if len(f.Body) == 0 {
			f.Body = append(f.Body, &cfNode{Kind: "out", Tag: g.tag()})
		}
		if last := f.Body[len(f.Body)-1]; (last.Kind == "out" || last.Kind == "return") && !cfBreaksFunc(f.Body, name) {
			g.exitKnown[name] = true
		}
		g.funcs = append(g.funcs, f)
		names = append(names, name)
	}
	main := &cfFunc{Name: "c39m_" + id}
	main.Body = g.stmts(cfScope{fn: main.Name}, 3, names)
	main.Body = append(main.Body, &cfNode{Kind: "out", Tag: "zz"})
	if r.Intn(2) == 0 {
		main.Body = append(main.Body, &cfNode{Kind: "return", N: r.Intn(5)})
	}
	g.funcs = append(g.funcs, main)
	return g.funcs
}

func cfBreaksFunc(nodes []*cfNode, fn string) bool {
	for _, n := range nodes {
		if n.Kind == "break" && n.Name == fn {
			return true
		}
		if cfBreaksFunc(n.Body, fn) || cfBreaksFunc(n.Else, fn) {
			return true
		}
	}
	return false
}

func cfSrc(nodes []*cfNode, ind string, b *strings.Builder) {
	for _, n := range nodes {
		switch n.Kind {
		case "out":
			b.WriteString(ind + "out " + n.Tag + "\n")
		case "foreach":
			fmt.Fprintf(b, "%sa [1..%d] -> foreach %s {\n", ind, n.N, n.Var)
			cfSrc(n.Body, ind+"  ", b)
			b.WriteString(ind + "}\n")
		case "while":
			fmt.Fprintf(b, "%s%s = 0\n%swhile { $%s < %d } {\n%s  %s = $%s + 1\n", ind, n.Var, ind, n.Var, n.N, ind, n.Var, n.Var)
			cfSrc(n.Body, ind+"  ", b)
			b.WriteString(ind + "}\n")
		case "if":
			fmt.Fprintf(b, "%sif { $%s == %d } then {\n", ind, n.CVar, n.N)
			cfSrc(n.Body, ind+"  ", b)
			if n.Else != nil {
				b.WriteString(ind + "} else {\n")
				cfSrc(n.Else, ind+"  ", b)
			}
			b.WriteString(ind + "}\n")
		case "break":
			b.WriteString(ind + "break " + n.Name + "\n")
		case "continue":
			b.WriteString(ind + "continue " + n.Name + "\n")
		case "return":
			if n.N < 0 {
				b.WriteString(ind + "return\n") // no number: 0
			} else {
				fmt.Fprintf(b, "%sreturn %d\n", ind, n.N)
			}
		case "call":
			b.WriteString(ind + n.Name + "\n")
			if n.Show {
				b.WriteString(ind + "exitnum\n")
			}
		}
	}
}

// ---- reference interpreter ----

type cfSignal struct {
	kind string // "" break continue return
	name string
	n    int
}

type cfInterp struct {
	funcs     map[string]*cfFunc
	out       strings.Builder
	steps     int
	extraSteps int // the deviation run may take longer than the reference run
	ctlRun    int
	ifTaken   int
	ifSkipped int
	kinds     map[string]int
	// directNoop: model the known deviation (a direct continue does nothing)
	directNoop bool
	directRun  int
	shown      int
}

func (in *cfInterp) block(nodes []*cfNode, vars map[string]int) cfSignal {
	for _, n := range nodes {
		in.steps++
		if in.steps > 400+in.extraSteps {
			return cfSignal{kind: "overflow"}
		}
		switch n.Kind {
		case "out":
			in.out.WriteString(n.Tag + "\n")
		case "foreach", "while":
			for i := 1; i <= n.N; i++ {
				vars[n.Var] = i
				sig := in.block(n.Body, vars)
				if sig.kind == "" {
					continue
				}
				if sig.kind == "overflow" || sig.kind == "return" {
					return sig
				}
				if sig.name == n.Kind {
					if sig.kind == "break" {
						break
					}
					continue // continue <this loop>
				}
				return sig // targets an outer block
			}
		case "if":
			var sig cfSignal
			if vars[n.CVar] == n.N {
				in.ifTaken++
				sig = in.block(n.Body, vars)
			} else {
				in.ifSkipped++
				if n.Else != nil {
					sig = in.block(n.Else, vars)
				}
			}
			if sig.kind == "break" && sig.name == "if" {
				sig = cfSignal{}
			}
			if sig.kind != "" {
				return sig
			}
		case "break", "continue":
			if n.Direct {
				in.directRun++
				if in.directNoop {
					continue
				}
			}
			in.ctlRun++
			in.kinds[n.Kind]++
			return cfSignal{kind: n.Kind, name: n.Name}
		case "return":
			in.ctlRun++
			in.kinds["return"]++
			if n.N < 0 {
				return cfSignal{kind: "return", n: 0}
			}
			return cfSignal{kind: "return", n: n.N}
		case "call":
			sig := in.call(n.Name)
			if sig.kind == "overflow" {
				return sig
			}
			if n.Show {
				// done:return -> its number; end of the body reached -> the last command's (out: 0)
				in.shown++
				fmt.Fprintf(&in.out, "%d\n", sig.n)
			}
		}
	}
	return cfSignal{}
}

// call runs a function in a fresh variable scope; returns overflow only
func (in *cfInterp) call(name string) cfSignal {
	f := in.funcs[name]
	sig := in.block(f.Body, map[string]int{})
	if sig.kind == "overflow" {
		return sig
	}
	// break <function name> ends the function; return ends it with an exit number
	return cfSignal{kind: "done:" + sig.kind, n: sig.n}
}

type c39Expect struct {
	Stdout    string         `json:"stdout"`
	Exit      int            `json:"exit"`
	ExitKnown bool           `json:"exit_known"`
	NT        bool           `json:"nt"`
	Src       string         `json:"src"`
	Kinds     map[string]int `json:"kinds"`
	// DevStdout: output if a continue placed directly in its loop's body did nothing (known deviation)
	DevStdout string `json:"dev_stdout,omitempty"`
	HasDev    bool   `json:"has_dev,omitempty"`
	DevExit   int    `json:"dev_exit,omitempty"`
	DevExitOK bool   `json:"dev_exit_ok,omitempty"`
	Shown     int    `json:"shown,omitempty"`
}

func init() {
	register(&Property{
		ID:    "C39",
		Level: "exploration",
		Rule: "PRNG programs of 1-3 functions with nested foreach / while / if blocks (depth <= 4) printing `out` markers, with break <name> (nearest foreach/while/if or the function), continue <loop> and return n (also `return` without a number, and return directly after a function call that may have ended non-zero) placed unconditionally or under `if { $loopvar == k }`; the exit number of helper functions is printed with `exitnum` after some calls; run in-process and compared (stdout always; exit number when the program ends through return or its last command) with a reference interpreter; " +
			"non-trivial = at least one control statement executed and at least one guard both taken and not taken; distinct by program text",
		Assumptions: []string{"break/continue only name blocks that enclose them inside the same function", "the exit number after `break <function>` is not asserted", "leaf commands out, a [1..n], expression assignment and `if {$v == k}` are the observation channel"},
		Run: func(x *Ctx) {
			pool := x.NewPool(false)
			n := x.Pick(4000, 200000)
			var cases []*proto.Case
			for i := 0; i < n; i++ {
				r := x.Rng("cf", i)
				id := fmt.Sprintf("%d_%d", x.Seed, i)
				funcs := genCF(r, id)
				in := &cfInterp{funcs: map[string]*cfFunc{}, kinds: map[string]int{}}
				var src strings.Builder
				for _, f := range funcs {
					in.funcs[f.Name] = f
					src.WriteString("function " + f.Name + " {\n")
					cfSrc(f.Body, "  ", &src)
					src.WriteString("}\n")
				}
				main := funcs[len(funcs)-1]
				src.WriteString(main.Name + "\n")
				sig := in.call(main.Name)
				if sig.kind == "overflow" {
					continue
				}
				e := c39Expect{Stdout: in.out.String(), Src: src.String(), Kinds: in.kinds, Shown: in.shown}
				switch sig.kind {
				case "done:return":
					e.Exit, e.ExitKnown = sig.n, true
				case "done:":
					// ended by its last command: `out zz` (exit 0)
					e.Exit, e.ExitKnown = 0, true
				}
				if in.directRun > 0 {
					dv := &cfInterp{funcs: in.funcs, kinds: map[string]int{}, directNoop: true, extraSteps: 6000}
					sg := dv.call(main.Name)
					if sg.kind == "overflow" {
						// the program runs a `continue` that murex ignores (listed finding) and what it does
						// then is too long to model: not a usable case
						continue
					}
					if sg.kind != "overflow" {
						e.DevStdout, e.HasDev = dv.out.String(), true
						switch sg.kind {
						case "done:return":
							e.DevExit, e.DevExitOK = sg.n, true
						case "done:":
							e.DevExit, e.DevExitOK = 0, true
						}
					}
				}
				e.NT = in.ctlRun > 0 && in.ifTaken > 0 && in.ifSkipped > 0
				exp, _ := json.Marshal(e)
				cases = append(cases, &proto.Case{ID: "c39-" + id, Op: "prog", Block: src.String(), Expect: exp, TimeoutMs: 30000})
			}
			x.RunAll(pool, cases)
		},
		Check: func(x *Ctx, c *proto.Case, r *proto.Result) {
			if x.Bad(c, r) {
				return
			}
			var e c39Expect
			json.Unmarshal(c.Expect, &e)
			run := r.Runs[0]
			if e.NT {
				x.Nontrivial(e.Src)
			}
			x.Count("function exit numbers printed by exitnum", int64(e.Shown))
			for k, v := range e.Kinds {
				x.Count("executed "+k, int64(v))
			}
			if e.NT && len(e.Src) < 500 {
				x.Sample(map[string]any{"program": e.Src, "stdout": e.Stdout, "exit": e.Exit})
			}
			got := string(run.Stdout)
			if got != e.Stdout || (e.ExitKnown && run.Exit != e.Exit) {
				kind := "stdout"
				if got == e.Stdout {
					kind = "exit"
				}
				which := []string{}
				for _, k := range []string{"break", "continue", "return"} {
					if e.Kinds[k] > 0 {
						which = append(which, k)
					}
				}
				sig := kind + ":" + strings.Join(which, "+")
				if e.HasDev && got == e.DevStdout && (!e.DevExitOK || run.Exit == e.DevExit) {
					// the whole observable outcome (stdout and, where the model knows it, the exit number)
					// is the one a no-op `continue` gives
					sig = "continue:direct-child-noop"
				}
				x.Viol(sig, fmt.Sprintf("program\n%s\ngave stdout=%q exit=%d stderr=%q; reference interpreter says stdout=%q exit=%d (asserted=%v)", e.Src, got, run.Exit, trunc(string(run.Stderr), 300), e.Stdout, e.Exit, e.ExitKnown), c, map[string]any{"stdout": got, "exit": run.Exit}, map[string]any{"stdout": e.Stdout, "exit": e.Exit})
			}
		},
	})
}
