package main

import (
	"encoding/json"
	"fmt"
	"math/rand"
	"strings"

	"verif/proto"
)

type lval struct {
	Src  string `json:"src"`
	Kind string `json:"kind"` // bool num str null undef
	S    string `json:"s"`    // printed form
	Exit int    `json:"exit,omitempty"` // sub-shell operands: the exit number it ends with
}

var falsyWords = []string{"", "0", "null", "false", "no", "off", "fail", "failed", "disabled"}

func truthyString(s string) bool {
	t := strings.ToLower(strings.TrimSpace(s))
	for _, f := range falsyWords {
		if t == f {
			return false
		}
	}
	return true
}

func (v lval) truthy() bool {
	switch v.Kind {
	case "null", "undef":
		return false
	}
	if v.Exit != 0 {
		return false // any non-zero exit is false, whatever was printed
	}
	return truthyString(v.S)
}

func strVal(s string) lval { return lval{Src: `"` + s + `"`, Kind: "str", S: s} }

// operand pool: the whole falsy table in mixed case and padding, near misses, numbers, booleans
func c07Pool() []lval {
	var p []lval
	for _, w := range falsyWords {
		p = append(p, strVal(w))
		if w != "" {
			p = append(p, strVal(strings.ToUpper(w)), strVal(" "+w+" "), strVal(strings.ToUpper(w[:1])+w[1:]), strVal(w+" "), strVal("\t"+w),
				strVal("        "+w+"        "), strVal(" \t  "+strings.ToUpper(w)+"\t\t   \t"), strVal(w+"                    "))
		}
	}
	for _, w := range []string{"nope", "00", "offf", "nul", "fails", "disable", "yes", "on", "true", "1", "-1", "a", " a ", "0.5", "enabled", "n", "f", "o ff", "fal se", "ok", "0 0", "-0", "null0"} {
		p = append(p, strVal(w))
	}
	p = append(p, strVal(" "), strVal("   "), strVal("               "), strVal(" \t \t \t \t \t \t "))
	for _, n := range []string{"0", "1", "-1", "2", "0.5", "10"} {
		p = append(p, lval{Src: n, Kind: "num", S: n})
	}
	p = append(p, lval{Src: "true", Kind: "bool", S: "true"}, lval{Src: "false", Kind: "bool", S: "false"})
	p = append(p, lval{Src: "(1 < 2)", Kind: "bool", S: "true"}, lval{Src: "(2 < 1)", Kind: "bool", S: "false"}, lval{Src: "(3 == 3)", Kind: "bool", S: "true"})
	return p
}

var c07Null = lval{Src: "null", Kind: "null", S: ""}
var c07Undef = lval{Src: "$c07_never_defined", Kind: "undef", S: ""}

type lnode struct {
	op   string
	l, r *lnode
	leaf lval
}

func (n *lnode) src() string {
	if n.op == "" {
		return n.leaf.Src
	}
	return "(" + n.l.src() + " " + n.op + " " + n.r.src() + ")"
}

func (n *lnode) eval() lval {
	if n.op == "" {
		return n.leaf
	}
	l := n.l.eval()
	switch n.op {
	case "&&":
		b := l.truthy() && n.r.eval().truthy()
		return lval{Kind: "bool", S: fmt.Sprint(b)}
	case "||":
		b := l.truthy() || n.r.eval().truthy()
		return lval{Kind: "bool", S: fmt.Sprint(b)}
	case "?:":
		if l.truthy() {
			return l
		}
		return n.r.eval()
	case "??":
		if l.Kind == "null" || l.Kind == "undef" {
			return n.r.eval()
		}
		return l
	}
	panic("op")
}

func (n *lnode) depth() int {
	if n.op == "" {
		return 0
	}
	a, b := n.l.depth(), n.r.depth()
	if b > a {
		a = b
	}
	return a + 1
}

var c07Ops = []string{"&&", "||", "?:", "??"}

func genLogic(r *rand.Rand, pool []lval, depth int, rightSide bool) *lnode {
	if depth <= 0 || r.Intn(4) == 0 {
		k := r.Intn(20)
		switch {
		case k == 0:
			return &lnode{leaf: c07Null}
		case k == 1 && !rightSide:
			return &lnode{leaf: c07Undef}
		}
		return &lnode{leaf: pool[r.Intn(len(pool))]}
	}
	return &lnode{op: c07Ops[r.Intn(len(c07Ops))], l: genLogic(r, pool, depth-1, false), r: genLogic(r, pool, depth-1, true)}
}

type c07Item struct {
	Form string `json:"form"`
	Src  string `json:"src"`
	Want string `json:"want"`
	NT   bool   `json:"nt"`
}

func init() {
	register(&Property{
		ID:    "C07",
		Level: "exploration",
		Rule: "operand pool = the whole falsy table in mixed case and with padding, near misses (nope, 00, offf ...), numbers, booleans, comparison sub-expressions, null and an undefined variable (left operands only); " +
			"(1) the pool squared under each of && || ?: ?? exhaustively, (2) PRNG trees to depth 4, fully parenthesised, as the right-hand side of an assignment, (4) sub-shell operands that print truthy / falsy text and end with exit 0 or 1 (`${out yes}`, `${out bob; false}`, `${false}` ...) paired with each other and with plain values under && and || exhaustively, (3) every str/num/bool pool value judged by `if { out V }`, `out V -> !`, `(V ?: ELSE)`, `(V && true)`, `(V || false)` which must agree; " +
			"compared with a reference truthiness function; non-trivial = the expression has an operator; distinct by source text",
		Assumptions: []string{"an undefined variable or null is only used where the statement defines the outcome (never as the value finally printed from the right-hand side)", "numeric zero is written `0` (0.0 is not in the statement's table)"},
		Run: func(x *Ctx) {
			pool := x.NewPool(false)
			vals := c07Pool()
			var items []c07Item
			add := func(form, src, want string, nt bool) {
				items = append(items, c07Item{Form: form, Src: src, Want: want, NT: nt})
			}
			// (3) same value through every judge
			for _, v := range vals {
				if v.Kind == "bool" && strings.HasPrefix(v.Src, "(") {
					continue
				}
				t := v.truthy()
				add("if", fmt.Sprintf("if { out %s } then { out T } else { out F }", v.Src), map[bool]string{true: "T", false: "F"}[t], true)
				add("not", fmt.Sprintf("out %s -> !", v.Src), fmt.Sprint(!t), true)
				elv := v.S
				if !t {
					elv = "ELSE"
				}
				add("assign", fmt.Sprintf("(%s ?: \"ELSE\")", v.Src), elv, true)
				add("assign", fmt.Sprintf("(%s && true)", v.Src), fmt.Sprint(t), true)
				add("assign", fmt.Sprintf("(%s || false)", v.Src), fmt.Sprint(t), true)
			}
			// (1) pool squared, depth 1
			sq := append(append([]lval{}, vals...), c07Null)
			step := 1
			if x.Quick() {
				step = 3
			}
			k := 0
			for _, op := range c07Ops {
				for i, a := range append(sq, c07Undef) {
					for j, b := range sq {
						k++
						if (i+j+k)%step != 0 {
							continue
						}
						n := &lnode{op: op, l: &lnode{leaf: a}, r: &lnode{leaf: b}}
						add("assign", n.src(), n.eval().S, true)
					}
				}
			}
			// (4) sub-shell operands, which carry an exit number besides their output, under && and ||
			subs := []lval{
				{Src: "${out yes}", Kind: "str", S: "yes"}, {Src: "${out 0}", Kind: "str", S: "0"}, {Src: "${out no}", Kind: "str", S: "no"},
				{Src: "${out bob; false}", Kind: "str", S: "bob", Exit: 1}, {Src: "${out yes; false}", Kind: "str", S: "yes", Exit: 1},
				{Src: "${false}", Kind: "str", S: "false", Exit: 1}, {Src: "${out off; false}", Kind: "str", S: "off", Exit: 1},
				strVal("x"), strVal(""), {Src: "0", Kind: "num", S: "0"}, {Src: "1", Kind: "num", S: "1"},
				{Src: "true", Kind: "bool", S: "true"}, {Src: "false", Kind: "bool", S: "false"},
			}
			for _, op := range []string{"&&", "||"} {
				for i, a := range subs {
					for j, b := range subs {
						if i >= 7 && j >= 7 {
							continue // no sub-shell in the pair
						}
						n := &lnode{op: op, l: &lnode{leaf: a}, r: &lnode{leaf: b}}
						add("assign", n.src(), n.eval().S, true)
						x.Count("expressions_with_subshell_operands", 1)
					}
				}
			}
			x.Count("pool_size", int64(len(vals)))
			// (2) random trees
			n := x.Pick(6000, 250000)
			for i := 0; i < n; i++ {
				r := x.Rng("logic", i)
				t := genLogic(r, vals, 2+r.Intn(3), false)
				if t.op == "" {
					continue
				}
				add("assign", t.src(), t.eval().S, t.depth() >= 1)
			}
			// batch 150 per program
			var cases []*proto.Case
			for b := 0; b*150 < len(items); b++ {
				end := (b + 1) * 150
				if end > len(items) {
					end = len(items)
				}
				chunk := items[b*150 : end]
				var prog strings.Builder
				for i, it := range chunk {
					switch it.Form {
					case "assign":
						fmt.Fprintf(&prog, "r%d = %s; out \"$r%d|\"\n", i, it.Src, i)
					default:
						fmt.Fprintf(&prog, "%s; out \"|\"\n", it.Src)
					}
				}
				exp, _ := json.Marshal(chunk)
				cases = append(cases, &proto.Case{ID: fmt.Sprintf("c07-%d", b), Op: "prog", Block: prog.String(), Expect: exp, TimeoutMs: 60000})
			}
			x.RunAll(pool, cases)
		},
		Check: func(x *Ctx, c *proto.Case, r *proto.Result) {
			if x.Bad(c, r) {
				return
			}
			var items []c07Item
			json.Unmarshal(c.Expect, &items)
			x.Eval(len(items) - 1)
			out := string(r.Runs[0].Stdout)
			lines := strings.Split(out, "|\n")
			if len(lines) != len(items)+1 {
				x.Viol("batch-shape", fmt.Sprintf("batch of %d produced %d result lines; stderr: %s", len(items), len(lines)-1, trunc(string(r.Runs[0].Stderr), 800)), c, trunc(out, 2000), nil)
				return
			}
			for i, it := range items {
				got := lines[i]
				if it.Form != "assign" {
					got = strings.TrimSuffix(got, "\n")
				}
				if it.NT {
					x.Nontrivial(it.Form + it.Src)
				}
				x.Count("form "+it.Form, 1)
				if i < 1 {
					x.Sample(map[string]any{"form": it.Form, "src": it.Src, "expected": it.Want, "murex": got})
				}
				if got != it.Want {
					single := &proto.Case{ID: fmt.Sprintf("%s-%d", c.ID, i), Op: "prog", TimeoutMs: 30000}
					if it.Form == "assign" {
						single.Block = fmt.Sprintf("r0 = %s; out \"$r0|\"\n", it.Src)
					} else {
						single.Block = it.Src + "; out \"|\"\n"
					}
					single.Expect, _ = json.Marshal([]c07Item{it})
					x.Viol("truth:"+it.Form+":"+c07OpsIn(it.Src), fmt.Sprintf("%s: `%s` gave %q, reference truthiness says %q", it.Form, it.Src, got, it.Want), single, got, it.Want)
				}
			}
		},
	})
}

func c07OpsIn(src string) string {
	var k []string
	for _, op := range c07Ops {
		if strings.Contains(src, " "+op+" ") {
			k = append(k, op)
		}
	}
	return strings.Join(k, "")
}
