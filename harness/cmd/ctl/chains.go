package main

// Shared "mx-lite" command-chain vocabulary for C03, C04, C05, C28: leaf
// commands with known effects, a printer to murex source and the reference
// models of the three run modes.

import (
	"fmt"
	"math/rand"
	"strings"
)

// Stage is one command with a known effect
type Stage struct {
	Kind string `json:"k"` // out | fn | err | tg
	Tag  string `json:"t,omitempty"`
	Exit int    `json:"x,omitempty"`
	// Sub: tag written to stderr by a sub-shell in the command's argument (`out a1${err s1}`):
	// evaluated only if the command really runs
	Sub string `json:"u,omitempty"`
}

// chainSubEffects lets genChain give commands an argument sub-shell with a visible side effect (C04 only)
var chainSubEffects bool

// chainNegExits adds functions ending with a negative exit number (a failure in the normal run mode; C04 only)
var chainNegExits bool

func fnName(exit int) string {
	if exit < 0 {
		return fmt.Sprintf("vfm%d", -exit)
	}
	return fmt.Sprintf("vf%d", exit)
}

// Unit is a pipeline (1..n stages) with the operator joining it to its predecessor
type Unit struct {
	Join   string   `json:"j"` // "" (first) ";" "\n" "&&" "||"
	Stages []Stage  `json:"s"`
	Pipes  []string `json:"p,omitempty"` // "|" or "->" between stages
}

const chainPrelude = `function vf0 { out $1; return 0 }
function vf1 { out $1; return 1 }
function vf2 { out $1; return 2 }
function vf3 { out $1; return 3 }
function vf7 { out $1; return 7 }
function vfm1 { out $1; return -1 }
function vfm3 { out $1; return -3 }
function vtg { <stdin> -> set s; out "<$s>" }
`

var fnExits = []int{0, 1, 2, 3, 7}

func (s Stage) src() string {
	switch s.Kind {
	case "out":
		if s.Sub != "" {
			return "out " + s.Tag + "${err " + s.Sub + "}"
		}
		return "out " + s.Tag
	case "fn":
		if s.Sub != "" {
			return fmt.Sprintf("%s %s${err %s}", fnName(s.Exit), s.Tag, s.Sub)
		}
		return fmt.Sprintf("%s %s", fnName(s.Exit), s.Tag)
	case "err":
		return "err " + s.Tag
	case "tg":
		return "vtg"
	}
	panic("bad stage")
}

// effect returns stdout, stderr, exit of a stage given its stdin
func (s Stage) effect(stdin string) (string, string, int) {
	switch s.Kind {
	case "out":
		if s.Sub != "" {
			return s.Tag + "\n", s.Sub + "\n", 0
		}
		return s.Tag + "\n", "", 0
	case "fn":
		if s.Sub != "" {
			return s.Tag + "\n", s.Sub + "\n", s.Exit
		}
		return s.Tag + "\n", "", s.Exit
	case "err":
		return "", s.Tag + "\n", 1
	case "tg":
		return "<" + strings.TrimSuffix(stdin, "\n") + ">\n", "", 0
	}
	panic("bad stage")
}

func chainSrc(units []Unit) string {
	var b strings.Builder
	for i, u := range units {
		if i > 0 {
			switch u.Join {
			case ";":
				b.WriteString("; ")
			case "\n":
				b.WriteString("\n")
			default:
				b.WriteString(" " + u.Join + " ")
			}
		}
		for j, s := range u.Stages {
			if j > 0 {
				b.WriteString(" " + u.Pipes[j-1] + " ")
			}
			b.WriteString(s.src())
		}
	}
	return b.String()
}

// genChain builds a chain of n commands in total. Units joined by && / || are
// single commands (the statements say nothing about skipping part of a
// pipeline); pipelines are the first unit or joined by ; / newline.
func genChain(r *rand.Rand, maxCmds int, wantLogic bool) []Unit {
	n := 1 + r.Intn(maxCmds)
	var units []Unit
	tag := 0
	mkStage := func(first bool, stderrUsed *bool) Stage {
		tag++
		t := fmt.Sprintf("%c%d", 'a'+rune(r.Intn(26)), tag)
		for {
			sub := ""
			if chainSubEffects && !*stderrUsed && r.Intn(4) == 0 {
				sub = "s" + t
			}
			switch k := r.Intn(10); {
			case k < 3:
				if sub != "" {
					*stderrUsed = true
				}
				return Stage{Kind: "out", Tag: t, Sub: sub}
			case k < 7:
				if sub != "" {
					*stderrUsed = true
				}
				ex := fnExits[r.Intn(len(fnExits))]
				if chainNegExits && r.Intn(6) == 0 {
					ex = []int{-1, -3}[r.Intn(2)]
				}
				return Stage{Kind: "fn", Tag: t, Exit: ex, Sub: sub}
			case k < 8:
				if *stderrUsed {
					continue
				}
				*stderrUsed = true
				return Stage{Kind: "err", Tag: t}
			default:
				if first {
					continue
				}
				return Stage{Kind: "tg"}
			}
		}
	}
	cmds := 0
	for cmds < n {
		var u Unit
		if len(units) > 0 {
			switch k := r.Intn(10); {
			case k < 2:
				u.Join = ";"
			case k < 3:
				u.Join = "\n"
			case k < 6:
				u.Join = "&&"
			default:
				u.Join = "||"
			}
		}
		stages := 1
		if r.Intn(3) == 0 && (u.Join != "&&" && u.Join != "||" || r.Intn(2) == 0) {
			stages = 2 + r.Intn(2)
		}
		used := false
		for j := 0; j < stages && cmds < n; j++ {
			u.Stages = append(u.Stages, mkStage(j == 0, &used))
			if j > 0 {
				if r.Intn(2) == 0 {
					u.Pipes = append(u.Pipes, "|")
				} else {
					u.Pipes = append(u.Pipes, "->")
				}
			}
			cmds++
		}
		units = append(units, u)
	}
	return units
}

type chainResult struct {
	Stdout string `json:"stdout"`
	Stderr string `json:"stderr"`
	Exit   int    `json:"exit"`
	// Ran counts the commands that executed (used for non-triviality)
	Ran     int `json:"ran"`
	Skipped int `json:"skipped"`
	// Ambiguous: a multi-stage pipeline was skipped as a whole; the statements
	// do not say what its later stages do, so nothing is asserted
	Ambiguous bool `json:"ambiguous,omitempty"`
}

func runPipeline(u Unit, out *chainResult) int {
	data, exit := "", 0
	for _, s := range u.Stages {
		o, e, x := s.effect(data)
		out.Stderr += e
		data, exit = o, x
		out.Ran++
	}
	out.Stdout += data
	return exit
}

// modelNormal: the normal run mode as stated by C04
func modelNormal(units []Unit) chainResult {
	var res chainResult
	prev, skipChain := 0, false
	for i, u := range units {
		skipped := false
		if i > 0 {
			switch u.Join {
			case "&&":
				skipped = prev != 0 || skipChain
			case "||":
				skipped = prev == 0 || skipChain
			}
			skipChain = skipped
		}
		if skipped {
			res.Skipped += len(u.Stages)
			if len(u.Stages) > 1 {
				res.Ambiguous = true
			}
			continue // exit number stays that of the predecessor
		}
		prev = runPipeline(u, &res)
	}
	res.Exit = prev
	return res
}

// modelTry: `try` checks the last command of each pipeline
func modelTry(units []Unit) chainResult {
	var res chainResult
	i := 0
	for i < len(units) {
		x := runPipeline(units[i], &res)
		res.Exit = x
		i++
		if i < len(units) {
			if x == 0 && units[i].Join == "||" {
				for i < len(units) && units[i].Join == "||" {
					res.Skipped += len(units[i].Stages)
					if len(units[i].Stages) > 1 {
						res.Ambiguous = true
					}
					i++
				}
				continue
			}
			if x > 0 && units[i].Join != "||" {
				return res
			}
		}
	}
	return res
}

// modelTryPipe: `trypipe` checks every command, in order
func modelTryPipe(units []Unit) chainResult {
	var res chainResult
	type cmd struct {
		s        Stage
		op       string // join or pipe operator before the command
		pipeNext bool
	}
	var cmds []cmd
	for _, u := range units {
		for j, s := range u.Stages {
			c := cmd{s: s, op: u.Join}
			if j > 0 {
				c.op = "|"
			}
			c.pipeNext = j < len(u.Stages)-1
			cmds = append(cmds, c)
		}
	}
	data := ""
	i := 0
	for i < len(cmds) {
		c := cmds[i]
		in := ""
		if c.op == "|" {
			in = data
		}
		o, e, x := c.s.effect(in)
		res.Ran++
		res.Stderr += e
		if c.pipeNext {
			data = o
		} else {
			res.Stdout += o
			data = ""
		}
		res.Exit = x
		i++
		if i < len(cmds) {
			if x == 0 && cmds[i].op == "||" {
				for i < len(cmds) && cmds[i].op == "||" {
					res.Skipped++
					if cmds[i].pipeNext {
						res.Ambiguous = true
					}
					i++
				}
				continue
			}
			if x > 0 && cmds[i].op != "||" {
				return res
			}
		}
	}
	return res
}

func chainStats(units []Unit) (ops, logic, pipes int) {
	for i, u := range units {
		if i > 0 {
			ops++
			if u.Join == "&&" || u.Join == "||" {
				logic++
			}
		}
		ops += len(u.Pipes)
		pipes += len(u.Pipes)
	}
	return
}
