package main

import (
	"fmt"
	"math/rand"
	"regexp"
	"strings"

	"verif/proto"
)

// builtins that are never generated: they end or block the shell by design, reach the
// network / a terminal / other processes, or change global state the next case depends on
var c19Deny = map[string]bool{"exit": true, "read": true, "open": true, "open-image": true, "openagent": true, "!openagent": true, "source": true, ".": true, "exec": true, "fexec": true, "cd": true,
	"get": true, "post": true, "getfile": true, "murex-package": true, "murex-update-exe-list": true, "bg": true, "fg": true, "signal": true, "event": true, "!event": true, "fid-kill": true, "fid-killall": true,
	"(murex named pipe)": true, "read-named-pipe": true, "debug": true, "man-summary": true, "man-get-flags": true, "select": true, "key-code": true, "while": true, "!while": true, "for": true, "history": true,
	"murex-docs": true, "summary": true, "!summary": true, "pt": true, "lockfile": true, "method": true, "config": true, "!config": true, "autocomplete": true, "runtime": true, "test": true, "!test": true}

var c19Builtins = strings.Fields("! ![ !alias !and !catch !escape !eschtml !escurl !export !function !g !global !if !match !or !pipe !private !regexp !rx !set ( 2darray > >> @[ [ [[ a addheading alias alter and append args bexists break cast catch continue count cpuarch cpucount datetime err escape esccli eschtml escurl exitnum export expr f false fanout fappend fid-list foreach formap format function fwrite g get-type global if is-null ja jsplit left list.case map match mjoin msort mtac murex-parser null or os out pipe prefix prepend pretty private rand regexp return right round runmode rx set struct-keys suffix switch ta tabulate time tmp tout true try tryerr trypipe trypipeerr type unsafe unset version which ~> [ [ [ [[ ![ [ [[ @[")

var c19Args = []string{"''", "-x", "--bogus", "-", "--", "0", "-1", "1", "2", "99999999999999999999", "1.5", "-0", "1e309", "NaN", "abc", "é日", "'a b'", "{}", "{ out x }", "{ c19undefined }", "{ [ -9 ] }",
	"%[1,2,3]", "%{a:1}", "%[]", "[1]", "[-1]", "[-99]", "[99]", "[..]", "[5..1]", "[1..2]e", "[ 0 ]", "[ -4 ]", "m/(/", "s/a/b/x", "f/(", "$c19undefined", "@c19undefined", "$c19v", "@c19a", "<null>", "<err>", "<!out>",
	"*", "~", "str", "int", "num", "json", "yaml", "csv", "jsonl", "toml", "bogus-type", "xml", "hcl", "sexp", "commonlog", "paths", "path", "tsv", "bool", "float", "generic", "columns", "base64", "gz", ":json", "c19p", "c19fn", "c19v", "c19v=1", "=", "==", "/", ".", "..", "a.b.c", "/a/b", "-n", "-s", "--help", "true", "false", "null",
	"'{'", "'}'", "'['", "\"\\n\"", "\"a\\tb\"", "1,2,3", "a:b", "*0", "*1", "*2", "*7", "*-1", "7:", "1:", "0:", ":1", ":a", "a:", "*a", "-1:", "/0", "/a/b/c", ".0", "..1", "{ a: 1 }", "%{--x:str}", "%{flags:%{--x:str}}", "%{AllowAdditional:false}", "AAAAAAAAAAAAAAAAAAAAAAAAAAAAAAAAAAAAAAAAAAAAAAAAAAAAAAAAAAAAAAAAAAAAAAAAAAAAAAAAAAAAAAAAAAAAAAAAAAAA"}

var c19Producers = []string{"tout json [1,2,3]", "tout json '{\"a\":1,\"b\":[1,2]}'", "tout json '{bad'", "tout json ''", "tout json '[1,null]'", "tout json null", "tout int abc", "tout num 1e999", "tout yaml 'a: [1'", "tout yaml '- 1\\n- 2'",
	"tout csv 'a,b\\n1'", "tout str ''", "tout str abc", "tout * x", "tout bogus x", "a [1..5]", "ja [1..3]", "out x", "null", "%[1,null,\"x\"]", "%{a:%[1,2]}", "tout jsonl '[1]\\n{'", "tout toml 'a = '", "tout xml '<a><b></a>'",
	"tout bool maybe", "tout paths /a/b", "tout commonlog x", "tout hcl 'a {'", "out", "err x", "tout json '[[1,2],[3]]'", "tout json '\"s\"'", "tout json 1", "a [..]", "a [1..3,,]", "tout csv 'a,b\\n1,2\\n3,4\\n'", "tout generic 'a b\\n1 2\\n3 4\\n'", "tout tsv 'a\\tb\\n1\\t2\\n'", "tout csv ''", "tout csv 'a,b\\n1,2\\n'", "tout jsonl '[1,2]\\n[3,4]\\n'", "tout generic ''", "tout csv 'a,\"b\\n1'"}

type c19Gen struct{ r *rand.Rand }

func (g *c19Gen) arg() string { return c19Args[g.r.Intn(len(c19Args))] }

func (g *c19Gen) cmd() string {
	name := c19Builtins[g.r.Intn(len(c19Builtins))]
	n := g.r.Intn(4)
	parts := []string{name}
	for i := 0; i < n; i++ {
		parts = append(parts, g.arg())
	}
	switch name {
	case "[", "![", "@[":
		if g.r.Intn(8) > 0 {
			parts = append(parts, "]")
		}
	case "[[":
		if g.r.Intn(8) > 0 {
			parts = append(parts, "]]")
		}
	}
	return strings.Join(parts, " ")
}

// an index expression whose selectors come from one family, aimed at the table / array / map readers
func (g *c19Gen) indexCmd() string {
	fam := [][]string{
		{"*0", "*1", "*2", "*3", "*7", "*99", "*-1"},
		{"0:", "1:", "2:", "7:", "99:", "-1:"},
		{":0", ":1", ":2", ":7", ":99", "*a", "*b", "*z"},
		{"a", "b", "zz", "''", "A"},
		{"0", "1", "2", "-1", "-2", "-9", "99", "1.5"},
		{"..", "1..", "..2", "5..1", "-3..-1", "0..99", "1..2e", "a..b"},
	}[g.r.Intn(6)]
	open, close := "[", "]"
	switch g.r.Intn(10) {
	case 0:
		open = "!["
	case 1:
		open, close = "[[", "]]"
	}
	parts := []string{open}
	for n := 1 + g.r.Intn(4); n > 0; n-- {
		parts = append(parts, fam[g.r.Intn(len(fam))])
	}
	if g.r.Intn(10) == 0 {
		parts = append(parts, g.arg())
	}
	return strings.Join(append(parts, close), " ")
}

var c19Tables = []string{"tout csv 'a,b\\n1,2\\n3,4\\n'", "tout generic 'a b\\n1 2\\n3 4\\n'", "tout tsv 'a\\tb\\n1\\t2\\n'", "tout csv 'a,b\\n1,2\\n'", "tout jsonl '[1,2]\\n[3,4]\\n'", "tout json [1,2,3]", "tout json '{\"a\":1,\"b\":[1,2]}'", "tout yaml '- 1\\n- 2'", "a [1..5]", "tout str 'a b\\nc d\\n'", "tout json '[{\"a\":1},{\"a\":2}]'", "tout toml 'a = 1'"}

// invocations that are well formed but sit on a boundary of the command's own parameters
var c19Nums = []string{"0", "1", "2", "3", "5", "-1", "-0", "99", "1e-1", "0.5", "1e309", "NaN", "-9223372036854775808", "9223372036854775807", "''", "abc"}

func (g *c19Gen) template() string {
	n := func() string { return c19Nums[g.r.Intn(len(c19Nums))] }
	// sizes of things murex is asked to produce stay small: a request for 2^32 elements
	// exhausts memory by design and says nothing about robustness
	small := func() string { return []string{"0", "1", "2", "3", "5", "-1", "-0", "99", "1e-1", "0.5", "NaN", "''", "abc"}[g.r.Intn(13)] }
	lists := []string{"a [a,,b,,,c]", "a [,,]", "a [1..5]", "ja [1..3]", "tout json '[\"\",\"x\",\"\"]'", "tout str ''", "a [a,,b]"}
	l := lists[g.r.Intn(len(lists))]
	t := []string{
		l + " -> foreach --parallel " + n() + " v { out $v }",
		l + " -> foreach --step " + n() + " v { out $v }",
		l + " -> foreach --jmap v { out $v } { out $v }",
		"round -d " + n() + " " + n(),
		"round -u " + n() + " " + n(),
		"round " + n() + " " + n(),
		"out abc -> left " + n(),
		"out abc -> right " + n(),
		l + " -> left " + n(),
		l + " -> right " + n(),
		l + " -> [ " + n() + " ]",
		l + " -> [ " + n() + ".." + n() + " ]",
		"rand int " + n(),
		"rand str " + small(),
		"a [" + small() + ".." + small() + "]",
		"a [1..3] -> mjoin " + n(),
		"datetime --in " + n() + " --out " + n(),
		"function c19t (n: int) { out $n }\nc19t " + n() + "\n!function c19t",
		"function c19t (n: int [" + n() + "]) { out $n }\nc19t\n!function c19t",
		l + " -> jsplit " + n(),
		l + " -> count --" + []string{"total", "sum", "unique", "duplications", "bogus"}[g.r.Intn(5)],
		l + " -> tabulate --column-wraps --key-inc-hint --split-comma --joiner " + n(),
		l + " -> addheading " + n(),
		l + " -> 2darray { out a } { out b }",
		"switch " + n() + " { case 1 { out a } default { out b } }",
		"switch { if { false } { out a } catch { out b } }",
	}
	return t[g.r.Intn(len(t))]
}

func (g *c19Gen) pipeline() string {
	if g.r.Intn(4) == 0 {
		return g.template()
	}
	if g.r.Intn(5) == 0 {
		p := c19Tables[g.r.Intn(len(c19Tables))] + " -> " + g.indexCmd()
		if g.r.Intn(3) == 0 {
			p += " -> " + g.indexCmd()
		}
		return p
	}
	var parts []string
	if g.r.Intn(3) > 0 {
		parts = append(parts, c19Producers[g.r.Intn(len(c19Producers))])
	}
	for n := 1 + g.r.Intn(3); n > 0; n-- {
		parts = append(parts, g.cmd())
	}
	seps := []string{" -> ", " | ", " -> ", " => ", " ? ", " |> c19.txt; out x -> "}
	var b strings.Builder
	for i, p := range parts {
		if i > 0 {
			s := seps[g.r.Intn(len(seps))]
			if g.r.Intn(12) > 0 {
				s = " -> "
			}
			b.WriteString(s)
		}
		b.WriteString(p)
	}
	return b.String()
}

func (g *c19Gen) program() (string, bool) {
	pipes := false
	var b strings.Builder
	for n := 1 + g.r.Intn(3); n > 0; n-- {
		p := g.pipeline()
		switch g.r.Intn(14) {
		case 0:
			p = "try { " + p + " }"
		case 1:
			p = "trypipe { " + p + " }"
		case 2:
			p = "if { " + p + " } then { out y }"
		case 3:
			p = "function c19fn { " + p + " }\nc19fn " + g.arg() + " " + g.arg() + "\n!function c19fn"
		case 4:
			pipes = true
			p = "pipe c19p\n" + p + "\n!pipe c19p\n!pipe c19p"
		case 5:
			p = "c19v = ${ " + p + " }"
		case 6:
			p = "out \"${ " + p + " }\" @{ " + g.pipeline() + " }"
		case 7:
			p = "function c19fn { args c19args " + g.arg() + "; " + p + " }\nc19fn " + g.arg() + " " + g.arg() + "\n!function c19fn"
		case 8:
			pipes = true
			p = "pipe c19p\nout x -> <c19p>\n!pipe c19p\n" + p + "\n!pipe c19p"
		}
		b.WriteString(p + "\n")
	}
	return b.String(), pipes
}

var c19GetTypeRx = regexp.MustCompile("(get-type[ \t]+[\"'(]*)c19p")

var (
	c19CrashRx = regexp.MustCompile(`Murex has crashed|panic caught|fatal error:|goroutine \d+ \[running\]|panic:|runtime error`)
	c19FrameRx = regexp.MustCompile(`(?:function: |^|\n)github\.com/lmorg/murex/([A-Za-z0-9_/.\-]+\.[A-Za-z0-9_().*]+)`)
	c19CmdRx   = regexp.MustCompile("Error in `([^`]*)`")
	c19ArgsRx  = regexp.MustCompile(`\((?:0x[0-9a-fA-F]*|\.\.\.\)?)?$`)
)

func c19Classify(text string) string {
	if m := c19FrameRx.FindStringSubmatch(text); m != nil {
		f := m[1]
		// keep the function name only: `pkg.fn(0xc000...`, `pkg.fn(...)`, `pkg.fn(`
		f = c19ArgsRx.ReplaceAllString(f, "")
		return f
	}
	for _, seg := range strings.Split(text, "Error in `")[1:] {
		if strings.Contains(seg, "panic caught") {
			if i := strings.Index(seg, "`"); i > 0 {
				return "command:" + seg[:i]
			}
		}
	}
	if m := c19CmdRx.FindStringSubmatch(text); m != nil {
		return "command:" + m[1]
	}
	return "unknown"
}

func init() {
	register(&Property{
		ID:    "C19",
		Level: "exploration",
		Rule: "PRNG programs of 1-3 pipelines of 1-3 builtins drawn from murex's builtin table (minus a deny-list of commands that end or block the shell by design, reach the network / a terminal / other processes or change global state) with 0-3 arguments from a hostile pool (unknown flags, missing parameters, empty strings, huge / negative / non-numeric numbers and indexes, reversed ranges, broken regexps, undefined variables, wrong type names, blocks that fail, JSON / map literals, long strings), fed by producers of empty, null-carrying and malformed typed data (`tout json '{bad'`, `tout int abc`, `tout json '[1,null]'` ...), joined by -> | => ? |>, wrapped in try / trypipe / if / functions with bad parameters and `args` declarations / sub-shells / named pipes closed twice; each runs in a worker process with a watchdog; " +
			"oracle: the worker survives, neither murex's streams nor the process's own stderr show a crash report (`Murex has crashed`, `panic caught`, `fatal error:`, a goroutine dump, `runtime error`), and the program finishes (a hang verdict needs three progress samples without change); non-trivial = the program reported an error (exit number not 0 or text on stderr); distinct by program text",
		Assumptions: []string{"commands that block or terminate by design are not generated (deny-list in harness/cmd/ctl/c19.go)", "a watchdog expiry with progress is inconclusive, not a violation"},
		Technique:   "runtime monitoring: generated adversarial programs in child processes with crash-report, survival and no-progress oracles",
		Run: func(x *Ctx) {
			pool := x.NewPool(false)
			pool.Recycle = 150
			n := x.Pick(5000, 300000)
			var cases []*proto.Case
			for i := 0; i < n; i++ {
				g := &c19Gen{r: x.Rng("prog", i)}
				src, pipes := g.program()
				// `get-type <pipe>` waits, by design, until the named pipe has a data type or is closed; the
				// program's own pipe has no writer at that point (`pipe` statements even run ahead of the
				// block), so that call would block on itself: it gets a name that is not a pipe
				src = c19GetTypeRx.ReplaceAllString(src, "${1}c19q")
				// named pipes are process-global: a private name per program keeps programs independent (C26 covers their life cycle)
				src = strings.ReplaceAll(src, "c19p", fmt.Sprintf("c19p%d", i))
				c := &proto.Case{ID: fmt.Sprintf("c19-%d", i), Op: "prog", Block: src, TimeoutMs: 20000}
				if pipes && i%2 == 0 {
					c.IdleMs = 2600 // the delayed named-pipe closers fire after 2 s
				}
				cases = append(cases, c)
			}
			x.RunAll(pool, cases)
		},
		Check: func(x *Ctx, c *proto.Case, r *proto.Result) {
			if r.Crash != "" {
				text := r.Crash + "\n" + r.OSErr
				x.Viol("worker-died:"+c19Classify(r.OSErr), fmt.Sprintf("the process running this program died (%s):\n%s\n%s", r.Crash, c.Block, trunc(r.OSErr, 1500)), c, trunc(text, 3000), "process survives")
				x.hardFailure()
				return
			}
			if r.TimedOut {
				if r.NoProgress {
					x.Viol("hang:"+hangSignature(r.Dump), fmt.Sprintf("the program did not finish and made no progress over three samples:\n%s\ncrash text: %s", c.Block, trunc(r.OSErr, 800)), c, trunc(r.Dump, 60000), "finishes")
					x.hardFailure()
				} else {
					x.Inconclusive("watchdog expired while the program was still making progress")
				}
				return
			}
			if r.Error != "" || len(r.Runs) == 0 {
				x.Inconclusive("worker error: " + r.Error)
				return
			}
			run := r.Runs[0]
			all := string(run.Stderr) + "\n" + run.Err + "\n" + r.OSErr
			if run.Exit != 0 || len(run.Stderr) > 0 || run.Err != "" {
				x.Nontrivial(c.Block)
				x.Count("programs_that_reported_an_error", 1)
			}
			if len(c.Block) < 160 && run.Exit != 0 {
				x.Sample(map[string]any{"program": c.Block, "exit_number": run.Exit, "stderr": trunc(string(run.Stderr), 200)})
			}
			if c19CrashRx.MatchString(all) {
				x.Viol("crash-report:"+c19Classify(all), fmt.Sprintf("running\n%s\nproduced a crash report: %s", c.Block, trunc(all, 1500)), c, trunc(all, 3000), "an error message, no panic")
			}
		},
	})
}
