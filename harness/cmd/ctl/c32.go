package main

import (
	"encoding/json"
	"fmt"
	"math/rand"
	"os"
	"path/filepath"
	"regexp"
	"sort"
	"strings"

	"verif/proto"
)

// programs aimed at interpreter state shared between goroutines
func c32Program(r *rand.Rand, id string) string {
	n := 3 + r.Intn(6)
	switch r.Intn(16) {
	case 0:
		return fmt.Sprintf("function c32w_%s { global c32g = $1 }\na [1..%d] -> foreach i { c32w_%s $i; out $GLOBAL.c32g }\n!function c32w_%s\n", id, n, id, id)
	case 1:
		return fmt.Sprintf("bg { a [1..%d] -> foreach i { out $i } }\nbg { out x -> cast str }\nout done\n", n)
	case 2:
		return fmt.Sprintf("a [1..%d] -> foreach --parallel 4 i { out \"p$i\" -> cast str }\n", n+4)
	case 3:
		return fmt.Sprintf("pipe c32p_%s\nbg { <c32p_%s> -> cast str -> null }\na [1..%d] -> <c32p_%s>\n!pipe c32p_%s\n", id, id, n, id, id)
	case 4:
		return fmt.Sprintf("c32v = %%{a:%%{b:1}}\na [1..%d] -> foreach i { $c32v.a.b = $i; out $c32v.a.b }\n", n)
	case 5:
		return fmt.Sprintf("function c32c_%s { config set proc strict-arrays false -> cast str -> cast str -> cast str }\nc32c_%s\nconfig get proc strict-arrays\n!function c32c_%s\n", id, id, id)
	case 6:
		return "function c32args { args a %{Flags: {--x: str, --y: bool}, AllowAdditional: true}; out $a }\nc32args --x 1 --y foo bar\nc32args --y\n"
	case 7:
		return fmt.Sprintf("alias c32a_%s=out aliased\nc32a_%s\n!alias c32a_%s\nfunction c32f_%s { out f }\nc32f_%s\n!function c32f_%s\n", id, id, id, id, id, id)
	case 8:
		return fmt.Sprintf("a [1..%d] -> foreach i { out $i } -> foreach j { out $j } -> count\n", n+8)
	case 9:
		return "runtime --variables --globals --fids --named-pipes --functions --aliases --config --readarray --writearray -> [ Variables ] -> null\nfid-list -> null\n"
	case 10:
		return fmt.Sprintf("set c32s=1\na [1..%d] -> foreach i { set c32s=$i; $c32s -> null }\nout $c32s\n", n)
	case 11:
		return fmt.Sprintf("trypipe { a [1..%d] -> regexp m/[0-9]/ -> msort -> cast str -> count }\ntry { out a <err> | cast str; out b <!out> }\n", n+20)
	case 12:
		return fmt.Sprintf("export C32E_%s=1\nout $C32E_%s\n!export C32E_%s\nglobal c32gg_%s=2\n!global c32gg_%s\n", id, id, id, id, id)
	case 13:
		return fmt.Sprintf("a [1..%d] -> foreach i { bg { out $i } }\nexitnum\n", n)
	case 14:
		return fmt.Sprintf("pipe c32q_%s\nout x -> <c32q_%s>\n!pipe c32q_%s\npipe c32q_%s\n!pipe c32q_%s\n", id, id, id, id, id)
	}
	return c28Program(r, "c32_"+id)
}

var (
	raceFrameRx = regexp.MustCompile(`^\s+((?:github\.com/lmorg/murex/|verif/|main\.)\S*?)\(\)\s*$`)
	raceHeadRx  = regexp.MustCompile(`^(Write|Read|Previous write|Previous read|Atomic write|Atomic read|Previous atomic write|Previous atomic read) at 0x[0-9a-f]+ by (main )?goroutine`)
)

type raceReport struct {
	Key   string
	Sites [2]string
	Text  string
	Own   bool // both access stacks lie in the harness
}

// parseRaceLog splits a GORACE log into reports and keys each by the unordered
// pair of innermost murex functions of its two access stacks (line numbers are not part of the key)
func parseRaceLog(text string) []raceReport {
	var out []raceReport
	blocks := strings.Split(text, "WARNING: DATA RACE")
	for _, b := range blocks[1:] {
		if i := strings.Index(b, "=================="); i >= 0 {
			b = b[:i]
		}
		var sites []string
		var harnessOnly []bool
		lines := strings.Split(b, "\n")
		for i := 0; i < len(lines); i++ {
			if !raceHeadRx.MatchString(lines[i]) {
				continue
			}
			site, onlyHarness := "", true
			for j := i + 1; j < len(lines) && strings.TrimSpace(lines[j]) != ""; j++ {
				m := raceFrameRx.FindStringSubmatch(lines[j])
				if m == nil {
					continue
				}
				fn := strings.TrimPrefix(m[1], "github.com/lmorg/murex/")
				isMurex := strings.HasPrefix(m[1], "github.com/lmorg/murex/") && !strings.HasPrefix(fn, "utils/verifhook")
				if isMurex {
					onlyHarness = false
					if site == "" {
						site = regexp.MustCompile(`\.func\d+(\.\d+)*$`).ReplaceAllString(fn, "")
					}
				}
			}
			if site == "" {
				site = "(no murex frame)"
			}
			sites = append(sites, site)
			harnessOnly = append(harnessOnly, onlyHarness)
		}
		for len(sites) < 2 {
			sites = append(sites, "(unknown)")
			harnessOnly = append(harnessOnly, false)
		}
		pair := []string{sites[0], sites[1]}
		sort.Strings(pair)
		// the `runtime` builtin dumps process, variable and config tables without taking
		// their locks: every race with such a reader gets one key prefix (see known_findings)
		dumpReader := func(s string) bool {
			return s == "lang.(*Process).Dump" || s == "utils/json.marshal" || strings.HasPrefix(s, "builtins/core/runtime.")
		}
		inRuntime := strings.Contains(b, "builtins/core/runtime.cmdRuntime")
		// `fid-list` walks the process table the same way
		fidList := func(s string) bool { return strings.HasPrefix(s, "builtins/core/processes.cmdFidList") }
		switch {
		case inRuntime && dumpReader(pair[0]):
			pair[0], pair[1] = "runtime-dump-reader", pair[1]
		case inRuntime && dumpReader(pair[1]):
			pair[0], pair[1] = "runtime-dump-reader", pair[0]
		case fidList(pair[0]):
			pair[0], pair[1] = "fid-list-reader", pair[1]
		case fidList(pair[1]):
			pair[0], pair[1] = "fid-list-reader", pair[0]
		}
		out = append(out, raceReport{Key: pair[0] + " | " + pair[1], Sites: [2]string{pair[0], pair[1]}, Text: "WARNING: DATA RACE" + b, Own: harnessOnly[0] && harnessOnly[1]})
	}
	return out
}

func init() {
	register(&Property{
		ID:    "C32",
		Level: "exploration",
		Rule: "the worker is built with `go build -race -tags verif` from the working tree and run with GORACE=halt_on_error=0 log_path=...; batches of 16 PRNG programs aimed at shared interpreter state — functions writing $GLOBAL variables, bg jobs, foreach --parallel, named pipes created / written / closed while a bg reader runs, nested variable updates in loops, `config set` inside function scopes in the middle of pipelines, concurrent `args` flag parsing of one shared function, alias / function / export / global definition and removal, two foreach blocks in one pipeline, `runtime` and `fid-list` dumps while other programs run, trypipe pipelines, plus the C28 program families — are executed concurrently from 4-8 goroutines with PRNG scheduling yields at the stream, life-cycle, run-mode and named-pipe hook points; each batch is run 3 times with different yield seeds; " +
			"oracle: the race detector's log contains no report (reports are de-duplicated by the unordered pair of innermost murex functions of the two access stacks; a report whose stacks lie only in the harness makes the check broken, not violated); non-trivial = every batch (all contain concurrent programs); distinct by (batch, interleaving signature)",
		Assumptions: []string{"the race detector only sees the interleavings that were executed", "races inside the harness itself are reported as a broken check"},
		Technique:   "sanitizer: Go race detector over generated concurrent programs with injected scheduling yields; reports de-duplicated by access-site pair",
		Run: func(x *Ctx) {
			pool := x.NewPool(true)
			logDir := filepath.Join(x.scratch, "race")
			os.MkdirAll(logDir, 0755)
			pool.ExtraEnv = append(pool.ExtraEnv, "GORACE=halt_on_error=0 history_size=3 log_path="+filepath.Join(logDir, "log"))
			pool.Recycle = 6
			n := x.Pick(40, 2500)
			var cases []*proto.Case
			for i := 0; i < n; i++ {
				r := x.Rng("batch", i)
				a := c28Args{Runners: 4 + r.Intn(5)}
				for k := 0; k < 16; k++ {
					a.Programs = append(a.Programs, c32Program(r, fmt.Sprintf("%d_%d_%d", x.Seed, i, k)))
				}
				for rep := 0; rep < 3; rep++ {
					a.Seed = uint64(r.Int63()) | 1
					args, _ := json.Marshal(a)
					cases = append(cases, &proto.Case{ID: fmt.Sprintf("c32-%d-%d", i, rep), Op: "c28.concurrent", Args: args, TimeoutMs: 600000})
				}
			}
			x.RunAll(pool, cases)
			// the workers have exited by now (Pool.Run stops them), so their race logs are complete
			files, _ := filepath.Glob(filepath.Join(logDir, "log.*"))
			total := 0
			seen := map[string]int{}
			first := map[string]raceReport{}
			for _, f := range files {
				b, err := os.ReadFile(f)
				if err != nil {
					continue
				}
				for _, rep := range parseRaceLog(string(b)) {
					total++
					if seen[rep.Key] == 0 {
						first[rep.Key] = rep
					}
					seen[rep.Key]++
				}
			}
			x.Count("race_log_files", int64(len(files)))
			x.Count("race_reports_before_deduplication", int64(total))
			x.Count("distinct_access_site_pairs_reported", int64(len(seen)))
			for key, rep := range first {
				if rep.Own {
					x.broken("the race detector reports a race inside the harness itself:\n" + trunc(rep.Text, 3000))
					continue
				}
				x.Viol("race:"+key, fmt.Sprintf("the race detector reported %d time(s) a data race between %s and %s:\n%s", seen[key], rep.Sites[0], rep.Sites[1], trunc(rep.Text, 3500)), nil, trunc(rep.Text, 6000), "no report")
			}
		},
		Check: func(x *Ctx, c *proto.Case, r *proto.Result) {
			if x.Bad(c, r) {
				return
			}
			var a c28Args
			var o c28Out
			json.Unmarshal(c.Args, &a)
			if err := json.Unmarshal(r.Out, &o); err != nil {
				x.Inconclusive("malformed result")
				return
			}
			x.Eval(len(a.Programs) - 1)
			x.Nontrivial(c.ID + o.Sig)
			x.SetAdd("interleaving_signatures", o.Sig)
			x.Count("function_ids_registered", int64(o.Registered))
			if c.ID == "c32-0-0" {
				x.Sample(map[string]any{"runners": a.Runners, "programs": a.Programs[:4], "yield_seed": a.Seed, "interleaving_signature": o.Sig})
			}
		},
	})
}
