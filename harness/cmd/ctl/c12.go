package main

import (
	"encoding/json"
	"fmt"
	"math/rand"
	"reflect"
	"strconv"
	"strings"

	"verif/proto"
)

func deepCopy(v any) any {
	b, _ := json.Marshal(v)
	var out any
	json.Unmarshal(b, &out)
	return out
}

func c12Str(r *rand.Rand) string {
	alpha := []string{"a", "b", "z", "0", "7", " ", "é", "-", "_", ".", ",", ":", "#", "x y", "true", "null"}
	s := ""
	for n := 1 + r.Intn(3); n > 0; n-- {
		s += alpha[r.Intn(len(alpha))]
	}
	return s
}

// c12Paths lists every path of a document: (path, value)
type c12Path struct {
	p []string
	v any
}

func c12Walk(v any, prefix []string, out *[]c12Path) {
	if len(prefix) > 0 {
		*out = append(*out, c12Path{append([]string{}, prefix...), v})
	}
	switch t := v.(type) {
	case map[string]any:
		for _, k := range sortedKeys(t) {
			c12Walk(t[k], append(prefix, k), out)
		}
	case []any:
		for i, e := range t {
			c12Walk(e, append(prefix, strconv.Itoa(i)), out)
		}
	}
}

// c12Get returns the value at an exact path (nil when it does not exist)
func c12Get(root any, path []string) any {
	for _, k := range path {
		switch t := root.(type) {
		case map[string]any:
			root = t[k]
		case []any:
			i, err := strconv.Atoi(k)
			if err != nil || i < 0 || i >= len(t) {
				return nil
			}
			root = t[i]
		default:
			return nil
		}
	}
	return root
}

// c12Set applies `$v.path = nv` to the model; ok=false means the assignment must be refused
func c12Set(root any, path []string, nv any) (any, bool) {
	if len(path) == 0 {
		return nv, true
	}
	switch t := root.(type) {
	case map[string]any:
		child, exists := t[path[0]]
		if len(path) == 1 {
			if exists {
				cv, ok := c12Convert(child, nv)
				if !ok {
					return root, false
				}
				t[path[0]] = cv
			} else {
				t[path[0]] = nv
			}
			return root, true
		}
		if !exists || child == nil {
			// the missing part of the path is created around the new value
			var w any = nv
			for j := len(path) - 1; j >= 1; j-- {
				w = map[string]any{path[j]: w}
			}
			t[path[0]] = w
			return root, true
		}
		nc, ok := c12Set(child, path[1:], nv)
		if !ok {
			return root, false
		}
		t[path[0]] = nc
		return root, true
	case []any:
		idx, err := strconv.Atoi(path[0])
		if err != nil || idx < 0 || idx >= len(t) {
			return root, false
		}
		if len(path) == 1 {
			cv, ok := c12Convert(t[idx], nv)
			if !ok {
				return root, false
			}
			t[idx] = cv
			return root, true
		}
		if t[idx] == nil {
			var w any = nv
			for j := len(path) - 1; j >= 1; j-- {
				w = map[string]any{path[j]: w}
			}
			t[idx] = w
			return root, true
		}
		nc, ok := c12Set(t[idx], path[1:], nv)
		if !ok {
			return root, false
		}
		t[idx] = nc
		return root, true
	default:
		return root, false // a scalar in the middle of the path
	}
}

// c12Convert: the new value converted to the existing leaf's type
func c12Convert(existing, nv any) (any, bool) {
	switch existing.(type) {
	case string:
		switch n := nv.(type) {
		case string:
			return n, true
		case float64:
			return strconv.FormatFloat(n, 'f', -1, 64), true
		case bool:
			return strconv.FormatBool(n), true
		}
	case float64:
		switch n := nv.(type) {
		case float64:
			return n, true
		case string:
			f, err := strconv.ParseFloat(strings.TrimSpace(n), 64)
			if err != nil {
				return nil, false
			}
			return f, true
		}
	case bool:
		if b, ok := nv.(bool); ok {
			return b, true
		}
	case nil, map[string]any, []any:
		return nv, true
	}
	return nil, false
}

// c12NewValue picks a replacement whose conversion the statement defines
func c12NewValue(r *rand.Rand, existing any, exists bool) (any, string) {
	num := func() (any, string) {
		f := float64(r.Intn(2000)-1000) / []float64{1, 1, 1, 4}[r.Intn(4)]
		return f, strconv.FormatFloat(f, 'f', -1, 64)
	}
	str := func() (any, string) {
		s := c12Str(r)
		return s, strconv.Quote(s)
	}
	boolean := func() (any, string) {
		b := r.Intn(2) == 0
		return b, strconv.FormatBool(b)
	}
	if !exists {
		switch r.Intn(3) {
		case 0:
			return num()
		case 1:
			return str()
		}
		return boolean()
	}
	switch existing.(type) {
	case string:
		switch r.Intn(3) {
		case 0:
			return num()
		case 1:
			return str()
		}
		return boolean()
	case float64:
		switch r.Intn(6) {
		case 0:
			s := strconv.Itoa(r.Intn(500))
			return s, strconv.Quote(s) // numeric string into a numeric leaf
		case 1:
			return "notanumber", `"notanumber"` // must be refused
		}
		return num()
	case bool:
		return boolean()
	default:
		switch r.Intn(3) {
		case 0:
			return num()
		case 1:
			return str()
		}
		return boolean()
	}
}

type c12Step struct {
	Desc string         `json:"desc"`
	Vars map[string]any `json:"vars"` // expected value of every variable after the step
	Fn   any            `json:"fn,omitempty"`
	HasFn bool          `json:"has_fn,omitempty"`
	Refused bool        `json:"refused,omitempty"`
}

type c12Expect struct {
	Steps []c12Step `json:"steps"`
	Sep   string    `json:"sep"`
	Src   string    `json:"src"`
	NT    bool      `json:"nt"`
	Names []string  `json:"names"`
}

func init() {
	register(&Property{
		ID:    "C12",
		Level: "exploration",
		Rule: "random JSON documents (depth <= 4, maps/arrays of scalars) in a variable, then sequences of 3-15 operations: copy (`b = $a`, `set json c = $a`, passing `$a` to a function that modifies its own copy), nested assignment `$v.p.q = x` on existing leaves (with type conversion: number / numeric string / unconvertible string into a number leaf, anything into a string leaf, bool into bool), on new keys, on new multi-level paths, on array elements inside and beyond the range and through scalars; after every operation every variable is printed; " +
			"oracle: reference store of deep-copied JSON values — a successful set reads back x (converted to the existing leaf's type) and leaves every other path of every variable unchanged, a refused set (unconvertible value, index out of range, path through a scalar) changes nothing; non-trivial = at least one copy followed by a modification of either copy, or a new multi-level path; distinct by program text",
		Assumptions: []string{"comparison is on decoded JSON values, not formatting", "keys contain no dots or brackets", "conversions the statement leaves open (bool into number, string into bool) are not generated"},
		Run: func(x *Ctx) {
			pool := x.NewPool(false)
			n := x.Pick(1500, 40000)
			var cases []*proto.Case
			for i := 0; i < n; i++ {
				r := x.Rng("seq", i)
				id := fmt.Sprintf("%d_%d", x.Seed, i)
				nodes := 25
				strGen := func(r *rand.Rand) string { return c12Str(r) }
				doc := map[string]any{}
				for k := 1 + r.Intn(4); k > 0; k-- {
					doc[fmt.Sprintf("k%d", k)] = genJSONValue(r, 3, &nodes, strGen, true)
				}
				// keys of nested maps come from genJSONValue as "k<i><str>": normalise to dot-free keys
				var norm func(v any) any
				kc := 0
				norm = func(v any) any {
					switch t := v.(type) {
					case map[string]any:
						m := map[string]any{}
						for _, k := range sortedKeys(t) {
							kc++
							m[fmt.Sprintf("n%d", kc)] = norm(t[k])
						}
						return m
					case []any:
						for i := range t {
							t[i] = norm(t[i])
						}
						return t
					}
					return v
				}
				store := map[string]any{"a": norm(doc)}
				names := []string{"a"}
				var src strings.Builder
				var lit strings.Builder
				printJSON(r, store["a"], &lit)
				sep := fmt.Sprintf("\x1eS%s\x1e", id)
				fmt.Fprintf(&src, "function c12f_%s { set json loc = $1; $loc.fnkey = \"set-in-function\"; out $loc }\n", id)
				fmt.Fprintf(&src, "a = %%%s\n", lit.String())
				e := c12Expect{Sep: sep, Names: nil}
				dump := func(desc string, step c12Step) {
					step.Desc = desc
					step.Vars = map[string]any{}
					for _, nme := range names {
						step.Vars[nme] = deepCopy(store[nme])
						fmt.Fprintf(&src, "out $%s\nout '%s'\n", nme, sep)
					}
					e.Steps = append(e.Steps, step)
				}
				dump("init", c12Step{})
				copies, modsAfterCopy, deepNew, caseSiblings := 0, 0, 0, 0
				nops := 3 + r.Intn(13)
				for op := 0; op < nops; op++ {
					k := r.Intn(10)
					switch {
					case k < 2 && len(names) < 3:
						from := names[r.Intn(len(names))]
						to := []string{"b", "c"}[len(names)-1]
						if r.Intn(2) == 0 {
							fmt.Fprintf(&src, "%s = $%s\n", to, from)
						} else {
							fmt.Fprintf(&src, "set json %s = $%s\n", to, from)
						}
						store[to] = deepCopy(store[from])
						names = append(names, to)
						copies++
						dump(fmt.Sprintf("copy %s = $%s", to, from), c12Step{})
					case k < 3:
						from := names[r.Intn(len(names))]
						fmt.Fprintf(&src, "c12f_%s $%s\nout '%s'\n", id, from, sep)
						fnv := deepCopy(store[from])
						if m, ok := fnv.(map[string]any); ok {
							m["fnkey"] = "set-in-function"
						}
						copies++
						modsAfterCopy++
						dump("function modifies its copy of $"+from, c12Step{Fn: fnv, HasFn: true})
					default:
						name := names[r.Intn(len(names))]
						var paths []c12Path
						c12Walk(store[name], nil, &paths)
						var path []string
						var existing any
						exists := false
						switch c := r.Intn(10); {
						case c < 5 && len(paths) > 0:
							p := paths[r.Intn(len(paths))]
							path, existing, exists = p.p, p.v, true
						case c < 7:
							// new key under an existing map (or the root)
							var maps [][]string
							maps = append(maps, nil)
							for _, p := range paths {
								if _, ok := p.v.(map[string]any); ok {
									maps = append(maps, p.p)
								}
							}
							base := maps[r.Intn(len(maps))]
							path = append(append([]string{}, base...), fmt.Sprintf("new%d", op))
							// or a key that differs from an existing sibling only in letter case:
							// reads are forgiving about capitalisation, writes must still be exact
							if bm, ok := c12Get(store[name], base).(map[string]any); ok && len(bm) > 0 && r.Intn(5) < 2 {
								ks := sortedKeys(bm)
								sib := ks[r.Intn(len(ks))]
								variant := strings.ToUpper(sib)
								if variant == sib {
									variant = strings.ToLower(sib)
								}
								if _, has := bm[variant]; !has && variant != sib {
									path[len(path)-1] = variant
									caseSiblings++
								}
							}
						case c < 8:
							// new multi-level path
							var maps [][]string
							maps = append(maps, nil)
							for _, p := range paths {
								if _, ok := p.v.(map[string]any); ok {
									maps = append(maps, p.p)
								}
							}
							base := maps[r.Intn(len(maps))]
							path = append(append([]string{}, base...), fmt.Sprintf("deep%d", op), "lvl2")
							if r.Intn(2) == 0 {
								path = append(path, "lvl3")
							}
							deepNew++
						case c < 9 && len(paths) > 0:
							// array index beyond the range, or a path through a scalar
							p := paths[r.Intn(len(paths))]
							switch t := p.v.(type) {
							case []any:
								path = append(append([]string{}, p.p...), strconv.Itoa(len(t)+r.Intn(3)))
							case map[string]any:
								path = append(append([]string{}, p.p...), fmt.Sprintf("new%d", op))
							case nil:
								path = p.p
								existing, exists = nil, true
							default:
								path = append(append([]string{}, p.p...), "below", "scalar")
							}
						default:
							path = []string{fmt.Sprintf("top%d", op)}
						}
						nv, lit := c12NewValue(r, existing, exists)
						fmt.Fprintf(&src, "$%s.%s = %s\n", name, strings.Join(path, "."), lit)
						backup := deepCopy(store[name])
						res, ok := c12Set(store[name], path, nv)
						if ok {
							store[name] = res
						} else {
							store[name] = backup
						}
						if len(names) > 1 {
							modsAfterCopy++
						}
						dump(fmt.Sprintf("$%s.%s = %s (model: ok=%v)", name, strings.Join(path, "."), lit, ok), c12Step{Refused: !ok})
					}
				}
				e.Src = src.String()
				e.NT = (copies > 0 && modsAfterCopy > 0) || deepNew > 0 || caseSiblings > 0
				exp, _ := json.Marshal(e)
				cases = append(cases, &proto.Case{ID: "c12-" + id, Op: "prog", Block: src.String(), Expect: exp, TimeoutMs: 60000})
			}
			x.RunAll(pool, cases)
		},
		Check: func(x *Ctx, c *proto.Case, r *proto.Result) {
			if x.Bad(c, r) {
				return
			}
			var e c12Expect
			json.Unmarshal(c.Expect, &e)
			run := r.Runs[0]
			if e.NT {
				x.Nontrivial(e.Src)
			}
			if e.NT && len(e.Src) < 600 {
				x.Sample(map[string]any{"program": e.Src})
			}
			parts := strings.Split(string(run.Stdout), e.Sep+"\n")
			pi := 0
			next := func() (string, bool) {
				if pi >= len(parts) {
					return "", false
				}
				s := parts[pi]
				pi++
				return s, true
			}
			names := []string{"a", "b", "c"}
			for _, st := range e.Steps {
				x.Count("steps", 1)
				if st.Refused {
					x.Count("refused_assignments_modelled", 1)
				}
				if st.HasFn {
					s, ok := next()
					var got any
					if !ok || json.Unmarshal([]byte(s), &got) != nil || !reflect.DeepEqual(got, st.Fn) {
						x.Viol("nested:function-copy", fmt.Sprintf("step %q: the function printed %q, expected %s\nprogram:\n%s\nstderr=%q", st.Desc, trunc(s, 300), mustJSON(st.Fn), e.Src, trunc(string(run.Stderr), 400)), c, s, st.Fn)
						return
					}
				}
				for _, nme := range names {
					want, has := st.Vars[nme]
					if !has {
						continue
					}
					s, ok := next()
					var got any
					if !ok || json.Unmarshal([]byte(s), &got) != nil || !reflect.DeepEqual(got, want) {
						cls := "wrong-value"
						switch {
						case st.Refused:
							cls = "refused-assignment-changed-data"
						case strings.HasPrefix(st.Desc, "copy"):
							cls = "copy"
						case strings.Contains(st.Desc, "deep"):
							cls = "new-multi-level-path"
						case !strings.Contains(st.Desc, "$"+nme+"."):
							cls = "other-variable-changed"
						}
						x.Viol("nested:"+cls, fmt.Sprintf("after step %q variable %s is %q, the model says %s\nprogram:\n%s\nstderr=%q", st.Desc, nme, trunc(s, 400), trunc(mustJSON(want), 400), e.Src, trunc(string(run.Stderr), 500)), c, s, want)
						return
					}
				}
			}
		},
	})
}
