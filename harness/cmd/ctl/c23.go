package main

import (
	"encoding/json"
	"fmt"
	"math/rand"
	"strings"

	"verif/proto"
)

type c23Param struct {
	Name        string `json:"name"`
	DataType    string `json:"type"`
	Description string `json:"desc"`
	HasDefault  bool   `json:"has_default"`
	Default     string `json:"default"`
	Optional    bool   `json:"optional"`
}

type c23Parsed struct {
	Params []c23Param `json:"params"`
	Err    string     `json:"err,omitempty"`
}

var c23Types = []string{"str", "int", "num", "bool"}

// c23Value returns (argument text, value the body must see) for a type; ok=false -> clearly unconvertible
func c23Value(r *rand.Rand, typ string, allowBad bool) (arg, seen string, ok bool) {
	switch typ {
	case "int":
		if allowBad && r.Intn(5) == 0 {
			return []string{"abc", "12x", "x7", "1,5", "--3"}[r.Intn(5)], "", false
		}
		n := r.Intn(2001) - 1000
		return fmt.Sprint(n), fmt.Sprint(n), true
	case "num":
		if allowBad && r.Intn(5) == 0 {
			return []string{"abc", "1.2.3", "12x", "one"}[r.Intn(4)], "", false
		}
		k := r.Intn(4)
		switch k {
		case 0:
			return "1.5", "1.5", true
		case 1:
			return "2.50", "2.5", true // converted: the canonical form is printed
		case 2:
			return "10.0", "10", true
		}
		n := r.Intn(2001) - 1000
		return fmt.Sprint(n), fmt.Sprint(n), true
	case "bool":
		b := r.Intn(2) == 0
		return fmt.Sprint(b), fmt.Sprint(b), true
	}
	s := []string{"hello", "a-b", "x_y", "v1", "Zed", "42", "1.0"}[r.Intn(7)]
	return s, s, true
}

func c23Text(r *rand.Rand, forDefault bool) string {
	alpha := []string{"a", "b", "Z", "0", " ", ":", ",", "[", "]", "!", ".", "-", "_", "é", "?", "name", "how old", "e.g."}
	n := 1 + r.Intn(5)
	var b strings.Builder
	for i := 0; i < n; i++ {
		a := alpha[r.Intn(len(alpha))]
		if forDefault && a == "]" {
			continue
		}
		b.WriteString(a)
	}
	return b.String()
}

// c23Signature builds a grammar-valid signature and its parsed form
func c23Signature(r *rand.Rand, valuesForDefault bool) (string, []c23Param) {
	n := 1 + r.Intn(5)
	var parts []string
	var params []c23Param
	optional := false
	for i := 0; i < n; i++ {
		suffixes := []string{"", "_x", "-y", "Z"}
		if valuesForDefault {
			suffixes = []string{"", "_x", "Z9", "Z"} // read back as $name in the body: no hyphen
		}
		p := c23Param{Name: fmt.Sprintf("p%d%s", i+1, suffixes[r.Intn(4)])}
		if optional || r.Intn(3) == 0 {
			optional = true
			p.Optional = true
		}
		var sb strings.Builder
		if p.Optional {
			sb.WriteString("!")
		}
		sb.WriteString(p.Name)
		if r.Intn(6) == 0 && i < n-1 {
			// type omitted: defaults to str
			p.DataType = "str"
		} else {
			p.DataType = c23Types[r.Intn(len(c23Types))]
			sb.WriteString(":" + []string{" ", "", "  "}[r.Intn(3)] + p.DataType)
			if p.Optional && r.Intn(2) == 0 {
				p.HasDefault = true
				if valuesForDefault {
					p.Default, _, _ = c23Value(r, p.DataType, false)
				} else {
					p.Default = c23Text(r, true)
				}
				sb.WriteString(" [" + p.Default + "]")
			}
			if r.Intn(2) == 0 {
				p.Description = c23Text(r, false)
				sb.WriteString(" \"" + p.Description + "\"")
			}
		}
		parts = append(parts, sb.String())
		params = append(params, p)
	}
	sep := []string{", ", ",", ",\n", ",\n  "}[r.Intn(4)]
	return strings.Join(parts, sep), params
}

type c23Expect struct {
	Sig    string `json:"sig"`
	Stdout string `json:"stdout"`
	Fails  bool   `json:"fails"`
	Call   string `json:"call"`
}

func init() {
	register(&Property{
		ID:    "C23",
		Level: "exploration",
		Rule: "language: PRNG signatures of 1-5 parameters (types str/int/num/bool, `!` optional markers, `[default]`, \"description\" with punctuation : , [ ] !, omitted types) and argument lists that always cover the mandatory parameters, with canonical convertible values, values whose conversion is visible (2.50 -> 2.5) and clearly unconvertible ones (abc, 12x); the body prints a marker and every parameter; API: the signature parser on grammar-valid signatures (fields compared) and on one-edit-invalid ones (unclosed quote / bracket, trailing comma, empty name, illegal name character, mandatory after optional, missing type after colon); " +
			"oracle: reference binding model (convert, default, unset, fail before the body runs) and reference parser; non-trivial = signature has >= 2 parameters with an optional marker, a default or a description; distinct by (signature, arguments)",
		Assumptions: []string{"missing mandatory arguments prompt interactively by design and are never generated", "values that Go's parsers accept leniently (1_000, +5, 1e3, empty) are in neither class", "bool has no unconvertible class (every string has a truthiness)"},
		Run: func(x *Ctx) {
			pool := x.NewPool(false)
			var cases []*proto.Case
			n := x.Pick(3000, 100000)
			for i := 0; i < n; i++ {
				r := x.Rng("call", i)
				sig, params := c23Signature(r, true)
				fname := fmt.Sprintf("c23f_%d_%d", x.Seed, i)
				mand := 0
				for _, p := range params {
					if !p.Optional {
						mand++
					}
				}
				k := mand + r.Intn(len(params)-mand+1)
				var args []string
				var out strings.Builder
				out.WriteString("body\n")
				fails := false
				for j, p := range params {
					if j < k {
						arg, seen, ok := c23Value(r, p.DataType, true)
						args = append(args, arg)
						if !ok {
							fails = true
						}
						fmt.Fprintf(&out, "%s=%s\n", p.Name, seen)
					} else if p.HasDefault {
						_, seen, _ := c23ValueOf(p.DataType, p.Default)
						fmt.Fprintf(&out, "%s=%s\n", p.Name, seen)
					}
					// optional without default: stays unset, its line is missing
				}
				var body strings.Builder
				body.WriteString("out body\n")
				for _, p := range params {
					fmt.Fprintf(&body, "out \"%s=$%s\"\n", p.Name, p.Name)
				}
				call := fname + " " + strings.Join(args, " ")
				block := fmt.Sprintf("function %s (%s) {\n%s}\n%s\n!function %s\n", fname, sig, body.String(), call, fname)
				e := c23Expect{Sig: sig, Stdout: out.String(), Fails: fails, Call: call}
				if fails {
					e.Stdout = ""
				}
				exp, _ := json.Marshal(e)
				cases = append(cases, &proto.Case{ID: fmt.Sprintf("c23-%d", i), Op: "prog", Block: block, Expect: exp, TimeoutMs: 30000})
			}
			// parser API
			np := x.Pick(5000, 1000000)
			per := 500
			for b := 0; b*per < np; b++ {
				r := x.Rng("parse", b)
				var sigs []string
				var want []c23Parsed
				for i := 0; i < per; i++ {
					sig, params := c23Signature(r, false)
					if i%3 == 2 {
						bad, ok := c23Invalidate(r, sig, params)
						if ok {
							sigs = append(sigs, bad)
							want = append(want, c23Parsed{Err: "expected"})
							continue
						}
					}
					sigs = append(sigs, sig)
					want = append(want, c23Parsed{Params: params})
				}
				args, _ := json.Marshal(sigs)
				exp, _ := json.Marshal(want)
				cases = append(cases, &proto.Case{ID: fmt.Sprintf("c23-parse-%d", b), Op: "c23.parse", Args: args, Expect: exp, TimeoutMs: 60000})
			}
			x.RunAll(pool, cases)
		},
		Check: func(x *Ctx, c *proto.Case, r *proto.Result) {
			if x.Bad(c, r) {
				return
			}
			if c.Op == "c23.parse" {
				var sigs []string
				var want, got []c23Parsed
				json.Unmarshal(c.Args, &sigs)
				json.Unmarshal(c.Expect, &want)
				if json.Unmarshal(r.Out, &got) != nil || len(got) != len(want) {
					x.Inconclusive("malformed parser result")
					return
				}
				x.Eval(len(sigs) - 1)
				for i := range want {
					if strings.ContainsAny(sigs[i], "![\"") && strings.Contains(sigs[i], ",") {
						x.Nontrivial("parse\x00" + sigs[i])
					}
					if want[i].Err != "" {
						x.Count("parser_invalid_signatures", 1)
						if got[i].Err == "" {
							x.Viol("parser:accepted-invalid", fmt.Sprintf("the signature parser accepted the invalid signature %q as %s", sigs[i], mustJSON(got[i].Params)), nil, got[i], "an error")
						}
						continue
					}
					x.Count("parser_valid_signatures", 1)
					if got[i].Err != "" {
						x.Viol("parser:rejected-valid", fmt.Sprintf("the signature parser rejected the valid signature %q: %s", sigs[i], got[i].Err), nil, got[i].Err, want[i].Params)
						continue
					}
					if mustJSON(got[i].Params) != mustJSON(want[i].Params) {
						x.Viol("parser:wrong-fields", fmt.Sprintf("signature %q parsed as %s, grammar says %s", sigs[i], mustJSON(got[i].Params), mustJSON(want[i].Params)), nil, got[i].Params, want[i].Params)
					}
				}
				return
			}
			var e c23Expect
			json.Unmarshal(c.Expect, &e)
			run := r.Runs[0]
			if strings.ContainsAny(e.Sig, "![\"") && strings.Contains(e.Sig, ",") {
				x.Nontrivial(e.Sig + "\x00" + e.Call)
			}
			if len(e.Sig) < 120 {
				x.Sample(map[string]any{"signature": e.Sig, "call": e.Call, "expected_stdout": e.Stdout, "fails_before_body": e.Fails})
			}
			if e.Fails {
				x.Count("calls_expected_to_fail_before_body", 1)
				if strings.Contains(string(run.Stdout), "body") || len(run.Stderr) == 0 {
					x.Viol("bind:unconvertible-argument-did-not-fail", fmt.Sprintf("function (%s) called as `%s`: an argument cannot be converted, but stdout=%q stderr=%q", e.Sig, e.Call, trunc(string(run.Stdout), 200), trunc(string(run.Stderr), 200)), c, string(run.Stdout), "no body, error message")
				}
				return
			}
			x.Count("calls_expected_to_bind", 1)
			if string(run.Stdout) != e.Stdout {
				x.Viol("bind:wrong-values", fmt.Sprintf("function (%s) called as `%s` printed %q, binding model says %q; stderr=%q", e.Sig, e.Call, trunc(string(run.Stdout), 300), trunc(e.Stdout, 300), trunc(string(run.Stderr), 300)), c, string(run.Stdout), e.Stdout)
			}
		},
	})
}

// c23ValueOf: what the body sees for a default value text of a type
func c23ValueOf(typ, text string) (string, string, bool) {
	switch typ {
	case "num":
		switch text {
		case "2.50":
			return text, "2.5", true
		case "10.0":
			return text, "10", true
		}
	}
	return text, text, true
}

// c23Invalidate applies one edit that makes the signature clearly invalid
func c23Invalidate(r *rand.Rand, sig string, params []c23Param) (string, bool) {
	switch r.Intn(7) {
	case 0:
		return sig + ",", true // trailing comma
	case 1:
		return sig + " \"unclosed", strings.Count(sig, "\"")%2 == 0 && !strings.HasSuffix(strings.TrimSpace(sig), "\"")
	case 2:
		if i := strings.Index(sig, "]"); i >= 0 && strings.Count(sig, "[") == 1 && strings.Count(sig, "]") == 1 && !strings.Contains(sig, "\"") {
			return sig[:i] + sig[i+1:], true // unclosed default
		}
	case 3:
		return ", " + sig, true // empty name
	case 4:
		return strings.Replace(sig, "p1", "p$1", 1), strings.Contains(sig, "p1") && !strings.HasPrefix(sig, "\"")
	case 5:
		// mandatory after optional
		if params[len(params)-1].Optional {
			return sig + ", zlast: str", true
		}
	case 6:
		return sig + ", q:", true // missing type after the colon
	}
	return "", false
}
