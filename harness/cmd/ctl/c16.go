package main

import (
	"encoding/json"
	"fmt"
	"strconv"
	"strings"

	"verif/proto"
)

type c16Expect struct {
	Cmd    string   `json:"cmd"`  // index | element | notindex | multi | mapkey | mapabsent
	Type   string   `json:"type"` // json yaml jsonl
	N      int      `json:"n"`
	K      []int    `json:"k"`
	InRng  bool     `json:"in_range"`
	Want   []string `json:"want"` // expected element(s) as raw strings
	Key    string   `json:"key,omitempty"`
	Strict bool     `json:"strict"` // value/err oracle applies (otherwise crash-freedom only)
}

func c16Doc(typ string, elems []string, ints bool) string {
	switch typ {
	case "json":
		var parts []string
		for _, e := range elems {
			if ints {
				parts = append(parts, e)
			} else {
				parts = append(parts, strconv.Quote(e))
			}
		}
		return "[" + strings.Join(parts, ",") + "]"
	case "yaml":
		if len(elems) == 0 {
			return "[]\n"
		}
		var b strings.Builder
		for _, e := range elems {
			b.WriteString("- " + e + "\n")
		}
		return b.String()
	case "jsonl":
		var b strings.Builder
		for _, e := range elems {
			if ints {
				b.WriteString(e + "\n")
			} else {
				b.WriteString(strconv.Quote(e) + "\n")
			}
		}
		return b.String()
	}
	panic(typ)
}

var crashMarkers = []string{"panic caught", "Murex has crashed", "goroutine ", "fatal error:", "runtime error"}

func hasCrashText(s string) string {
	for _, m := range crashMarkers {
		if strings.Contains(s, m) {
			return m
		}
	}
	return ""
}

func init() {
	register(&Property{
		ID:    "C16",
		Level: "exploration",
		Rule: "arrays of length n (quick: 0,1,2,3,7,20; thorough: 0..20) of distinct strings or integers, held in a json / yaml / jsonl typed variable; every k in [-30,30] through `[k]` and `[[/k]]` (exhaustive), `![ k ]` and PRNG multi-index tuples (crash-freedom; values too when all indexes are in range), maps with random present and absent keys, a third of them with a null-valued key next to a sibling key that differs only in letter case; " +
			"oracle: in range => element (negative from the end), exit 0; out of range => exit != 0 and non-empty stderr; never panic/crash text; non-trivial = k negative, or k >= n-1, or a multi/map lookup; distinct by (type, command, n, k)",
		Assumptions: []string{"documents are placed in a typed variable through the Variables API and piped with `$a -> [k]`", "for jsonl an element may be returned raw or JSON-encoded (one line)", "absent map keys and `![` are only checked for crash-freedom (the statement does not define their result)"},
		Run: func(x *Ctx) {
			pool := x.NewPool(false)
			lengths := []int{0, 1, 2, 3, 7, 20}
			if !x.Quick() {
				lengths = nil
				for n := 0; n <= 20; n++ {
					lengths = append(lengths, n)
				}
			}
			var cases []*proto.Case
			id := 0
			mk := func(e c16Expect, typ, doc, block string) {
				id++
				exp, _ := json.Marshal(e)
				cases = append(cases, &proto.Case{ID: fmt.Sprintf("c16-%d", id), Op: "prog", Block: block,
					Vars: []proto.Var{{Name: "a", Type: typ, Value: doc}}, Expect: exp, TimeoutMs: 20000})
			}
			for _, typ := range []string{"json", "yaml", "jsonl"} {
				for _, n := range lengths {
					for _, ints := range []bool{false, true} {
						if ints && n != 3 && n != 7 {
							continue
						}
						elems := make([]string, n)
						for i := range elems {
							if ints {
								elems[i] = strconv.Itoa(100 + i*7)
							} else {
								elems[i] = fmt.Sprintf("el%d", i)
							}
						}
						doc := c16Doc(typ, elems, ints)
						for k := -30; k <= 30; k++ {
							in := k >= -n && k < n
							var want []string
							if in {
								want = []string{elems[(k+n)%n]}
							}
							mk(c16Expect{Cmd: "index", Type: typ, N: n, K: []int{k}, InRng: in, Want: want, Strict: true}, typ, doc, fmt.Sprintf("$a -> [%d]", k))
							if typ != "jsonl" { // [[ ]] needs a structured document
								mk(c16Expect{Cmd: "element", Type: typ, N: n, K: []int{k}, InRng: in, Want: want, Strict: true}, typ, doc, fmt.Sprintf("$a -> [[/%d]]", k))
							}
							if k%3 == 0 {
								mk(c16Expect{Cmd: "notindex", Type: typ, N: n, K: []int{k}}, typ, doc, fmt.Sprintf("$a -> ![ %d ]", k))
							}
						}
						// multi-index tuples
						multi := x.Pick(12, 120)
						r := x.Rng("multi-"+typ, n*2+map[bool]int{true: 1}[ints])
						for m := 0; m < multi; m++ {
							cnt := 2 + r.Intn(3)
							ks := make([]int, cnt)
							in := true
							var want []string
							var parts []string
							for i := range ks {
								if n > 0 && r.Intn(4) != 0 {
									ks[i] = r.Intn(2*n) - n
								} else {
									ks[i] = r.Intn(61) - 30
								}
								if ks[i] >= -n && ks[i] < n {
									want = append(want, elems[(ks[i]+n)%n])
								} else {
									in = false
								}
								parts = append(parts, strconv.Itoa(ks[i]))
							}
							if !in {
								want = nil
							}
							mk(c16Expect{Cmd: "multi", Type: typ, N: n, K: ks, InRng: in, Want: want, Strict: typ != "jsonl"}, typ, doc, fmt.Sprintf("$a -> [%s]", strings.Join(parts, " ")))
						}
					}
				}
			}
			// maps
			nm := x.Pick(150, 4000)
			for i := 0; i < nm; i++ {
				r := x.Rng("map", i)
				nk := 1 + r.Intn(8)
				keys := map[string]string{}
				var order []string
				for len(order) < nk {
					k := fmt.Sprintf("k%c%d", 'a'+rune(r.Intn(26)), r.Intn(100))
					if _, ok := keys[k]; ok {
						continue
					}
					keys[k] = fmt.Sprintf("val%d", r.Intn(1000))
					order = append(order, k)
				}
				for _, typ := range []string{"json", "yaml"} {
					var doc string
					if typ == "json" {
						b, _ := json.Marshal(keys)
						doc = string(b)
					} else {
						for _, k := range order {
							doc += k + ": " + keys[k] + "\n"
						}
					}
					k := order[r.Intn(len(order))]
					mk(c16Expect{Cmd: "mapkey", Type: typ, N: nk, Key: k, InRng: true, Want: []string{keys[k]}, Strict: true}, typ, doc, "$a -> ["+k+"]")
					mk(c16Expect{Cmd: "mapkey-element", Type: typ, N: nk, Key: k, InRng: true, Want: []string{keys[k]}, Strict: true}, typ, doc, "$a -> [[/"+k+"]]")
					mk(c16Expect{Cmd: "mapabsent", Type: typ, N: nk, Key: "zz" + k}, typ, doc, "$a -> [zz"+k+"]")
					mk(c16Expect{Cmd: "mapabsent-element", Type: typ, N: nk, Key: "zz" + k}, typ, doc, "$a -> [[/zz"+k+"]]")
				}
				// a key whose value is null, next to a sibling that differs only in letter case:
				// `[key]` returns that key's value (nothing, exit 0), not the sibling's and not an error
				if i%3 == 0 {
					k := order[r.Intn(len(order))]
					up := strings.ToUpper(k)
					jdoc := map[string]any{}
					ydoc := ""
					for _, o := range order {
						if o == k {
							jdoc[o] = nil
							ydoc += o + ": null\n"
						} else {
							jdoc[o] = keys[o]
							ydoc += o + ": " + keys[o] + "\n"
						}
					}
					jdoc[up] = "sibling"
					ydoc += up + ": sibling\n"
					jb, _ := json.Marshal(jdoc)
					mk(c16Expect{Cmd: "mapkey-null", Type: "json", N: nk + 1, Key: k, InRng: true, Want: []string{""}, Strict: true}, "json", string(jb), "$a -> ["+k+"]")
					mk(c16Expect{Cmd: "mapkey-null", Type: "yaml", N: nk + 1, Key: k, InRng: true, Want: []string{""}, Strict: true}, "yaml", ydoc, "$a -> ["+k+"]")
					mk(c16Expect{Cmd: "mapkey-sibling", Type: "json", N: nk + 1, Key: up, InRng: true, Want: []string{"sibling"}, Strict: true}, "json", string(jb), "$a -> ["+up+"]")
				}
			}
			x.RunAll(pool, cases)
		},
		Check: func(x *Ctx, c *proto.Case, r *proto.Result) {
			if x.Bad(c, r) {
				return
			}
			var e c16Expect
			json.Unmarshal(c.Expect, &e)
			run := r.Runs[0]
			stdout, stderr := string(run.Stdout), string(run.Stderr)
			key := fmt.Sprintf("%s|%s|%d|%v|%s", e.Type, e.Cmd, e.N, e.K, e.Key)
			if len(e.K) != 1 || e.K[0] < 0 || e.K[0] >= e.N-1 {
				x.Nontrivial(key)
			}
			x.Count("lookups "+e.Cmd+" "+e.Type, 1)
			if e.InRng {
				x.Count("in_range", 1)
			} else {
				x.Count("out_of_range_or_unspecified", 1)
			}
			if e.Cmd == "index" && e.N == 3 && e.K[0] == -3 {
				x.Sample(map[string]any{"program": c.Block, "variable_type": e.Type, "document": c.Vars[0].Value, "stdout": stdout, "exit": run.Exit})
			}

			if m := hasCrashText(stderr + stdout + r.OSErr + run.Err); m != "" {
				x.Viol(fmt.Sprintf("%s:%s:panic", e.Cmd, e.Type), fmt.Sprintf("`%s` on %s %q ended in internal panic text (%q): %s", c.Block, e.Type, trunc(c.Vars[0].Value, 80), m, trunc(stderr+r.OSErr, 300)), c, stderr, "clean error")
				return
			}
			if !e.Strict {
				return
			}
			if e.InRng {
				ok := run.Exit == 0
				got := strings.TrimSuffix(stdout, "\n")
				if ok {
					if len(e.Want) == 1 && e.Cmd != "multi" {
						ok = got == e.Want[0]
						if !ok && e.Type == "jsonl" {
							var s any
							if json.Unmarshal([]byte(got), &s) == nil {
								ok = fmt.Sprint(s) == e.Want[0]
							}
						}
					} else {
						var arr []any
						if e.Type == "yaml" {
							for _, l := range strings.Split(strings.TrimSpace(stdout), "\n") {
								if strings.HasPrefix(l, "- ") {
									arr = append(arr, strings.TrimPrefix(l, "- "))
								}
							}
						}
						if (e.Type != "yaml" && json.Unmarshal([]byte(stdout), &arr) != nil) || len(arr) != len(e.Want) {
							ok = false
						} else {
							for i := range arr {
								if fmt.Sprint(arr[i]) != e.Want[i] {
									ok = false
								}
							}
						}
					}
				}
				if !ok {
					cls := "in-range-wrong"
					if len(e.K) == 1 && e.K[0] < 0 && (e.Type != "jsonl" || (run.Exit != 0 && stdout == "" && strings.Contains(stderr, "cannot unmarshal"))) {
						// for jsonl this class is a recorded finding: it is only used when the
						// outcome is exactly that finding's (table indexer error, no output)
						cls = "negative-in-range-wrong"
					}
					x.Viol(fmt.Sprintf("%s:%s:%s", e.Cmd, e.Type, cls), fmt.Sprintf("`%s` on a %s array of %d items (%s) gave stdout=%q exit=%d stderr=%q; expected element(s) %v", c.Block, e.Type, e.N, trunc(c.Vars[0].Value, 60), stdout, run.Exit, trunc(stderr, 200), e.Want), c, stdout, e.Want)
				}
				return
			}
			// out of range: clean error
			if run.Exit == 0 || strings.TrimSpace(stderr) == "" {
				x.Viol(fmt.Sprintf("%s:%s:oob-no-error", e.Cmd, e.Type), fmt.Sprintf("`%s` on a %s array of %d items is out of range but gave exit=%d stdout=%q stderr=%q", c.Block, e.Type, e.N, run.Exit, stdout, trunc(stderr, 200)), c, map[string]any{"exit": run.Exit, "stderr": stderr}, "non-zero exit and an error message")
			}
		},
	})
}
