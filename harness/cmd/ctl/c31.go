package main

import (
	"encoding/json"
	"fmt"
	"math/rand"
	"strings"

	"verif/proto"
)

type c31Expect struct {
	Pass    bool     `json:"pass"`
	Plan    string   `json:"plan"`
	Body    string   `json:"body"`
	Failing []string `json:"failing"`
	Holding []string `json:"holding"`
}

func c31Word(r *rand.Rand) string {
	w := []string{"alpha", "beta 2", "x=1", "hello world", "42", "a.b-c", "Zed", "ok: yes", "tab_sep", "q!"}
	return w[r.Intn(len(w))]
}

// c31Regex returns a pattern that matches text and one that does not, in varied spellings:
// anchored, unanchored, made of backslash classes / escapes only, and plain literals
func c31Regex(r *rand.Rand, text string) (hold, fail string) {
	text = strings.TrimSuffix(text, "\n")
	holds := []string{"^.+", "\\S", "\\S\\S", fmt.Sprintf("\\x%02x", text[0]), fmt.Sprintf("\\x%02x\\x%02x", text[0], text[1])}
	// a plain literal: the leading letters / digits of the text
	lit := ""
	for _, c := range text {
		if !(c >= 'a' && c <= 'z' || c >= 'A' && c <= 'Z' || c >= '0' && c <= '9') {
			break
		}
		lit += string(c)
	}
	if lit != "" {
		holds = append(holds, lit)
	}
	if strings.ContainsAny(text, "0123456789") {
		holds = append(holds, "\\d")
	}
	fails := []string{"^never-matches-[0-9]{9}$", "\\x00", "\\t\\t\\t", "neverappears9z9z", "\\d\\d\\d\\d\\d\\d", "\\x00\\w"}
	return holds[r.Intn(len(holds))], fails[r.Intn(len(fails))]
}

// c31Case builds one function + plan; force: "" (random mix), or the name of the single assertion to fail / "none"
func c31Case(r *rand.Rand, fname string, mode string) (block string, e c31Expect) {
	// function behaviour
	kind := []string{"text", "array", "map"}[r.Intn(3)]
	var stdout, stdoutType string
	var outCmd string
	arrLen := 0
	switch kind {
	case "text":
		w := c31Word(r)
		stdout, stdoutType = w+"\n", "str"
		outCmd = "out '" + w + "'"
	case "array":
		arrLen = 1 + r.Intn(5)
		items := make([]string, arrLen)
		for i := range items {
			items[i] = fmt.Sprintf("\"i%d\"", i)
		}
		stdout, stdoutType = "["+strings.Join(items, ",")+"]", "json"
		outCmd = "tout json '" + stdout + "'"
	case "map":
		arrLen = 1 + r.Intn(4)
		items := make([]string, arrLen)
		for i := range items {
			items[i] = fmt.Sprintf("\"k%d\":%d", i, i)
		}
		stdout, stdoutType = "{"+strings.Join(items, ",")+"}", "json"
		outCmd = "tout json '" + stdout + "'"
	}
	stderr := ""
	stderrKind := "none"
	exit := 0
	var body []string
	switch r.Intn(6) {
	case 4, 5: // structured stderr (a JSON array or map) written through a redirection: exit 0
		// a command carrying <err> declares the generic type on the block's stdout when the
		// block is compiled, so stdout is plain text of type * in these cases
		// (and any earlier command in the body fixes the type of the shared stderr stream),
		// so the function consists of that one command and nothing is asserted about stdout
		kind, stdout, stdoutType, outCmd, arrLen = "empty", "", "*", "", 0
		if r.Intn(2) == 0 {
			stderr, stderrKind = `["e0","e1","e2"]`, "array"
		} else {
			stderr, stderrKind = `{"ek":1,"el":2}`, "map"
		}
		body = []string{"tout <err> json '" + stderr + "'"}
	case 0: // stderr then stdout: exit 0
		stderr = c31Word(r) + "\n"
		body = []string{"err '" + strings.TrimSuffix(stderr, "\n") + "'", outCmd}
	case 1: // stdout then stderr: exit 1
		stderr = c31Word(r) + "\n"
		exit = 1
		body = []string{outCmd, "err '" + strings.TrimSuffix(stderr, "\n") + "'"}
	default:
		body = []string{outCmd}
	}

	// candidate assertions: name -> (holding JSON fragment, failing JSON fragment)
	type cand struct{ name, hold, fail string }
	js := func(s string) string { b, _ := json.Marshal(s); return string(b) }
	var cands []cand
	cands = append(cands, cand{"ExitNum", fmt.Sprintf("\"ExitNum\": %d", exit), fmt.Sprintf("\"ExitNum\": %d", 1-exit+r.Intn(2)*2)})
	if kind != "empty" {
		cands = append(cands, cand{"StdoutMatch", "\"StdoutMatch\": " + js(stdout), "\"StdoutMatch\": " + js(stdout+"x")})
	}
	rxHold, rxFail := "^.+", "^never-matches-[0-9]{9}$"
	if kind != "empty" && r.Intn(3) > 0 {
		rxHold, rxFail = c31Regex(r, stdout)
	} else if kind == "text" {
		rxHold = "^" + strings.NewReplacer(".", "\\.", "!", "!").Replace(strings.TrimSuffix(stdout, "\n")) + "\\n$"
	}
	wrongType := map[string]string{"str": "json", "json": "str", "*": "json"}[stdoutType]
	if stdoutType != "*" && r.Intn(2) == 0 {
		// `*` names the generic type; it is not a wildcard
		wrongType = "*"
	}
	if kind != "empty" {
		cands = append(cands, cand{"StdoutRegex", "\"StdoutRegex\": " + js(rxHold), "\"StdoutRegex\": " + js(rxFail)})
		cands = append(cands, cand{"StdoutType", "\"StdoutType\": " + js(stdoutType), "\"StdoutType\": " + js(wrongType)})
	}
	switch kind {
	case "array":
		cands = append(cands, cand{"StdoutIsArray", "\"StdoutIsArray\": true", ""})
		cands = append(cands, cand{"StdoutIsMap", "", "\"StdoutIsMap\": true"})
		cands = append(cands, cand{"StdoutGreaterThan", fmt.Sprintf("\"StdoutGreaterThan\": %d", max(1, arrLen-1)), fmt.Sprintf("\"StdoutGreaterThan\": %d", arrLen+1+r.Intn(3))})
	case "map":
		cands = append(cands, cand{"StdoutIsMap", "\"StdoutIsMap\": true", ""})
		cands = append(cands, cand{"StdoutIsArray", "", "\"StdoutIsArray\": true"})
		cands = append(cands, cand{"StdoutGreaterThan", fmt.Sprintf("\"StdoutGreaterThan\": %d", max(1, arrLen-1)), fmt.Sprintf("\"StdoutGreaterThan\": %d", arrLen+1+r.Intn(3))})
	}
	if arrLen == 1 {
		// `StdoutGreaterThan: N` passes when length >= N: only lengths strictly above N are used as holding cases
		for i := range cands {
			if cands[i].name == "StdoutGreaterThan" {
				cands[i].hold = ""
			}
		}
	}
	switch stderrKind {
	case "array":
		cands = append(cands, cand{"StderrIsArray", "\"StderrIsArray\": true", ""})
		cands = append(cands, cand{"StderrIsMap", "", "\"StderrIsMap\": true"})
	case "map":
		cands = append(cands, cand{"StderrIsMap", "\"StderrIsMap\": true", ""})
		cands = append(cands, cand{"StderrIsArray", "", "\"StderrIsArray\": true"})
	}
	if stderr != "" && stderrKind == "none" && kind != "text" {
		// plain text on stderr is neither an array nor a map, whatever stdout's type is
		cands = append(cands, cand{"StderrIsMap", "", "\"StderrIsMap\": true"})
	}
	if stderr != "" {
		cands = append(cands, cand{"StderrMatch", "\"StderrMatch\": " + js(stderr), "\"StderrMatch\": " + js(stderr+"z")})
		rx, rxf := "^[a-zA-Z0-9]", "^never-[0-9]{7}$"
		if stderrKind != "none" {
			rx = "^[\\[{]"
		}
		if r.Intn(3) > 0 {
			rx, rxf = c31Regex(r, stderr)
		}
		cands = append(cands, cand{"StderrRegex", "\"StderrRegex\": " + js(rx), "\"StderrRegex\": " + js(rxf)})
	} else {
		cands = append(cands, cand{"StderrRegex", "\"StderrRegex\": \"^$\"", "\"StderrRegex\": \"^something$\""})
		cands = append(cands, cand{"StderrMatch", "", "\"StderrMatch\": \"unexpected\""})
	}

	var frags []string
	pass := true
	stderrAsserted := false
	chooseFail := func(c cand) bool {
		switch mode {
		case "mix":
			return r.Intn(5) == 0
		case "none":
			return false
		}
		return c.name == mode
	}
	for _, c := range cands {
		include := mode != "mix" && (c.name == mode) || r.Intn(2) == 0
		if c.name == "ExitNum" && exit != 0 {
			include = true // an absent ExitNum means 0
		}
		if strings.HasPrefix(c.name, "Stderr") && stderr != "" && !stderrAsserted && c.name == "StderrRegex" {
			include = true // a function writing to stderr always carries an explicit stderr assertion
		}
		if !include {
			continue
		}
		fail := chooseFail(c)
		frag := c.hold
		if fail {
			frag = c.fail
		}
		if frag == "" {
			// this direction does not exist for the assertion
			if fail && c.hold != "" && mode == "mix" {
				frag, fail = c.hold, false
			} else if !fail && c.fail != "" && mode == "mix" && r.Intn(6) == 0 {
				frag, fail = c.fail, true
			} else {
				continue
			}
		}
		if c.name == "StderrMatch" || c.name == "StderrRegex" {
			stderrAsserted = true
		}
		frags = append(frags, frag)
		if fail {
			pass = false
			e.Failing = append(e.Failing, c.name)
		} else {
			e.Holding = append(e.Holding, c.name)
		}
	}
	// StderrMatch and StderrRegex interplay: an absent StderrMatch means "stderr must be empty"
	// unless StderrRegex is given; with stderr written and only a holding StderrMatch... fine.
	plan := "{ " + strings.Join(frags, ", ") + " }"
	block = fmt.Sprintf("function %s { %s }\ntest unit function %s %s\ntest run %s\n", fname, strings.Join(body, "; "), fname, plan, fname)
	e.Pass, e.Plan, e.Body = pass, plan, strings.Join(body, "; ")
	return
}

func init() {
	register(&Property{
		ID:    "C31",
		Level: "exploration",
		Rule: "generated functions with fixed stdout (text, JSON array or JSON map), optional stderr and exit number 0/1, paired with plans combining ExitNum, StdoutMatch, StdoutRegex, StdoutType, StdoutIsArray, StdoutIsMap, StdoutGreaterThan, StderrMatch, StderrRegex, StderrIsArray, StderrIsMap (stderr written as text or as a JSON array / map through a redirection), (the regular expressions in varied spellings: anchored, unanchored, backslash classes / escapes only such as `\\S`, `\\x41`, `\\d`, and plain literals), each assertion chosen to hold or to fail: every single-assertion-failing plan, all-holding plans, and PRNG mixes; defined with `test unit function` and executed with `test run`; " +
			"oracle: passed (exit number 0 of `test run`) iff every assertion of the plan holds; non-trivial = the plan has >= 2 assertions; distinct by (function body, plan)",
		Assumptions: []string{"an absent ExitNum means 0 and an absent StderrMatch means `stderr must be empty` unless StderrRegex is given (relied on by the repo's behavioural plans); every function that writes to stderr carries an explicit stderr assertion", "StdoutGreaterThan N is only used with lengths strictly above or strictly below N (the code accepts length == N)", "tested functions do not use `return` (a `return` inside a unit-tested function terminates the block that called `test run`: recorded as an observation in DESIGN.md)"},
		Run: func(x *Ctx) {
			pool := x.NewPool(false)
			var cases []*proto.Case
			id := 0
			add := func(r *rand.Rand, mode string) {
				id++
				fname := fmt.Sprintf("c31f_%d_%d", x.Seed, id)
				block, e := c31Case(r, fname, mode)
				exp, _ := json.Marshal(e)
				cases = append(cases, &proto.Case{ID: fmt.Sprintf("c31-%d", id), Op: "prog", Block: block, Expect: exp, TimeoutMs: 30000})
			}
			modes := []string{"none", "ExitNum", "StdoutMatch", "StdoutRegex", "StdoutType", "StdoutIsArray", "StdoutIsMap", "StdoutGreaterThan", "StderrMatch", "StderrRegex", "StderrIsArray", "StderrIsMap"}
			for rep := 0; rep < x.Pick(12, 200); rep++ {
				for mi, m := range modes {
					add(x.Rng("single-"+m, rep*100+mi), m)
				}
			}
			for i := 0; i < x.Pick(1000, 30000); i++ {
				add(x.Rng("mix", i), "mix")
			}
			x.RunAll(pool, cases)
		},
		Check: func(x *Ctx, c *proto.Case, r *proto.Result) {
			if x.Bad(c, r) {
				return
			}
			var e c31Expect
			json.Unmarshal(c.Expect, &e)
			run := r.Runs[0]
			if len(e.Failing)+len(e.Holding) >= 2 {
				x.Nontrivial(e.Body + "\x00" + e.Plan)
			}
			if e.Pass {
				x.Count("plans_expected_to_pass", 1)
			} else {
				x.Count("plans_expected_to_fail", 1)
			}
			for _, a := range e.Failing {
				x.Count("failing "+a, 1)
			}
			if len(e.Plan) < 200 {
				x.Sample(map[string]any{"function_body": e.Body, "plan": e.Plan, "expected_pass": e.Pass})
			}
			if m := hasCrashText(string(run.Stderr) + r.OSErr); m != "" {
				x.Viol("unit:panic", fmt.Sprintf("`test run` with plan %s on { %s }: panic text %q", e.Plan, e.Body, m), c, string(run.Stderr), "no panic")
				return
			}
			passed := run.Exit == 0
			if passed != e.Pass {
				sig := "unit:passed-although-failing:" + strings.Join(e.Failing, "+")
				if e.Pass {
					sig = "unit:failed-although-all-hold"
				}
				x.Viol(sig, fmt.Sprintf("function { %s } with plan %s: test run exit=%d (passed=%v), oracle says pass=%v (failing assertions %v, holding %v); report: %s", e.Body, e.Plan, run.Exit, passed, e.Pass, e.Failing, e.Holding, trunc(string(run.Stdout)+string(run.Stderr), 500)), c, passed, e.Pass)
			}
		},
	})
}
