package main

import (
	"bufio"
	"encoding/json"
	"fmt"
	"os"
	"os/exec"
	"path/filepath"
	"sync"
	"sync/atomic"
	"syscall"
	"time"

	"verif/proto"
)

// Pool runs cases on child worker processes. One crash or fatal error kills
// only the worker that ran the case; the case is reported with Crash set and a
// fresh worker takes over.
type Pool struct {
	Bin      string
	N        int
	Scratch  string
	ExtraEnv []string
	Spawned  atomic.Int64
	Crashes  atomic.Int64
	// Recycle: restart a worker after this many cases (0 = never)
	Recycle int
	// PathPrefix: extra directories in front of the workers' private PATH
	PathPrefix string
	// Stop: when set, cases not yet dispatched are dropped (used after many
	// crashes/hangs, each of which costs a full watchdog period)
	Stop    atomic.Bool
	Dropped atomic.Int64
}

type child struct {
	cmd   *exec.Cmd
	in    *bufio.Writer
	inRaw interface{ Close() error }
	out   *bufio.Reader
	cap   string
	dir   string
	n     int
}

func (p *Pool) spawn(slot int) (*child, error) {
	seq := p.Spawned.Add(1)
	dir := filepath.Join(p.Scratch, fmt.Sprintf("w%d-%d", slot, seq))
	for _, d := range []string{"home", "tmp", "cwd"} {
		if err := os.MkdirAll(filepath.Join(dir, d), 0755); err != nil {
			return nil, err
		}
	}
	c := &child{dir: dir, cap: filepath.Join(dir, "capture.txt")}
	cmd := exec.Command(p.Bin)
	cmd.Env = append([]string{
		"PATH=" + p.PathPrefix + filepath.Join(verifRoot, "bin", "helpers"),
		"HOME=" + filepath.Join(dir, "home"),
		"TMPDIR=" + filepath.Join(dir, "tmp"),
		"VERIF_WORKDIR=" + filepath.Join(dir, "cwd"),
		"VERIF_CAPTURE=" + c.cap,
		"MUREX_TEST_NO_EXEC_DEPS=1",
		"LANG=C.UTF-8",
		"GORACE=" + os.Getenv("GORACE"),
		"GOMAXPROCS=" + envOr("VERIF_WORKER_GOMAXPROCS", "4"),
	}, p.ExtraEnv...)
	stdin, err := cmd.StdinPipe()
	if err != nil {
		return nil, err
	}
	stdout, err := cmd.StdoutPipe()
	if err != nil {
		return nil, err
	}
	cmd.Stderr = nil
	cmd.SysProcAttr = &syscall.SysProcAttr{Setpgid: true}
	if err := cmd.Start(); err != nil {
		return nil, err
	}
	c.cmd = cmd
	c.in = bufio.NewWriter(stdin)
	c.inRaw = stdin
	c.out = bufio.NewReaderSize(stdout, 1<<20)
	return c, nil
}

func (c *child) kill() {
	if c == nil || c.cmd == nil || c.cmd.Process == nil {
		return
	}
	syscall.Kill(-c.cmd.Process.Pid, syscall.SIGKILL)
	c.cmd.Process.Kill()
	c.cmd.Wait()
	os.RemoveAll(c.dir)
}

func (c *child) stop() {
	if c == nil {
		return
	}
	c.inRaw.Close()
	done := make(chan struct{})
	go func() { c.cmd.Wait(); close(done) }()
	select {
	case <-done:
	case <-time.After(3 * time.Second):
		syscall.Kill(-c.cmd.Process.Pid, syscall.SIGKILL)
		c.cmd.Process.Kill()
		<-done
	}
	os.RemoveAll(c.dir)
}

func tailFile(path string, max int64) string {
	f, err := os.Open(path)
	if err != nil {
		return ""
	}
	defer f.Close()
	st, _ := f.Stat()
	off := int64(0)
	if st.Size() > max {
		off = st.Size() - max
	}
	b := make([]byte, st.Size()-off)
	f.ReadAt(b, off)
	return string(b)
}

// exchange sends one case and waits for the result
func (p *Pool) exchange(c *child, cs *proto.Case) (*proto.Result, bool) {
	b, _ := json.Marshal(cs)
	if d := os.Getenv("VERIF_DUMP_CASES"); d != "" {
		os.WriteFile(filepath.Join(d, cs.ID+".json"), b, 0644)
	}
	c.in.Write(b)
	c.in.WriteByte('\n')
	if err := c.in.Flush(); err != nil {
		return nil, false
	}

	type rd struct {
		line []byte
		err  error
	}
	ch := make(chan rd, 1)
	go func() {
		line, err := c.out.ReadBytes('\n')
		ch <- rd{line, err}
	}()

	timeout := time.Duration(cs.TimeoutMs)*time.Millisecond + time.Duration(cs.IdleMs)*time.Millisecond
	if cs.TimeoutMs <= 0 {
		timeout += 30 * time.Second
	}
	timeout += 20 * time.Second

	select {
	case r := <-ch:
		if r.err != nil || len(r.line) == 0 {
			return nil, false
		}
		var res proto.Result
		if err := json.Unmarshal(r.line, &res); err != nil {
			return &proto.Result{ID: cs.ID, Error: "bad result json: " + err.Error()}, true
		}
		return &res, true
	case <-time.After(timeout):
		// the worker's own watchdog did not answer: take a goroutine dump
		syscall.Kill(c.cmd.Process.Pid, syscall.SIGQUIT)
		time.Sleep(500 * time.Millisecond)
		return &proto.Result{ID: cs.ID, TimedOut: true, Dump: tailFile(c.cap, 64<<10), Error: "controller-side watchdog"}, false
	}
}

// Run executes all cases; fn is called concurrently (one call per case)
func (p *Pool) Run(cases []*proto.Case, fn func(c *proto.Case, r *proto.Result)) {
	if len(cases) == 0 {
		return
	}
	n := p.N
	if n > len(cases) {
		n = len(cases)
	}
	jobs := make(chan *proto.Case, n)
	var wg sync.WaitGroup
	for slot := 0; slot < n; slot++ {
		wg.Add(1)
		go func(slot int) {
			defer wg.Done()
			var ch *child
			defer func() { ch.stop() }()
			for cs := range jobs {
				if ch != nil && p.Recycle > 0 && ch.n >= p.Recycle {
					ch.stop()
					ch = nil
				}
				if ch == nil {
					var err error
					ch, err = p.spawn(slot)
					if err != nil {
						fn(cs, &proto.Result{ID: cs.ID, Error: "spawn: " + err.Error()})
						ch = nil
						continue
					}
				}
				ch.n++
				t0 := time.Now()
				res, alive := p.exchange(ch, cs)
				if d := time.Since(t0); d > 500*time.Millisecond && os.Getenv("VERIF_DEBUG") != "" {
					fmt.Fprintf(os.Stderr, "slow case %s %.2fs: %s\n", cs.ID, d.Seconds(), trunc(cs.Block, 120))
				}
				if res == nil {
					// worker died while running the case
					state := "?"
					done := make(chan struct{})
					go func() { ch.cmd.Wait(); close(done) }()
					select {
					case <-done:
						if ch.cmd.ProcessState != nil {
							state = ch.cmd.ProcessState.String()
						}
					case <-time.After(5 * time.Second):
						state = "did not exit"
					}
					p.Crashes.Add(1)
					res = &proto.Result{ID: cs.ID, Crash: "worker died (" + state + ")", OSErr: tailFile(ch.cap, 32<<10)}
				}
				if res.TimedOut && res.Dump == "" {
					res.Dump = tailFile(ch.cap, 64<<10)
				}
				if !alive || res.TimedOut {
					ch.kill()
					ch = nil
				}
				fn(cs, res)
			}
		}(slot)
	}
	for _, cs := range cases {
		if p.Stop.Load() {
			p.Dropped.Add(1)
			continue
		}
		jobs <- cs
	}
	close(jobs)
	wg.Wait()
}

func envOr(k, d string) string {
	if v := os.Getenv(k); v != "" {
		return v
	}
	return d
}
