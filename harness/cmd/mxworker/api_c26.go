package main

import (
	"github.com/lmorg/murex/builtins/pipes/streams"
	"encoding/json"
	"sync"
	"sync/atomic"
	"time"

	"github.com/lmorg/murex/lang/pipes"
	"github.com/lmorg/murex/utils/verifhook"

	"verif/proto"
)

type c26Op struct {
	Op      string `json:"op"` // create close delete get dump sleep
	Name    string `json:"name,omitempty"`
	SleepMs int    `json:"sleep_ms,omitempty"`
}

type c26Hist struct {
	ID    string    `json:"id"`
	Procs [][]c26Op `json:"procs"`
}

type c26Args struct {
	Hists     []c26Hist `json:"hists"`
	YieldSeed uint64    `json:"yield_seed"`
}

type c26Ev struct {
	Proc    int             `json:"proc"`
	Op      string          `json:"op"`
	Name    string          `json:"name,omitempty"`
	OK      bool            `json:"ok"`
	Err     string          `json:"err,omitempty"`
	Present map[string]bool `json:"present,omitempty"` // dump
	Call    int64           `json:"call"`
	Ret     int64           `json:"ret"`
}

type c26HistOut struct {
	ID     string          `json:"id"`
	Events []c26Ev         `json:"events"`
	Final  map[string]bool `json:"final"` // names present after the grace period of every close has passed
	FinalCall int64        `json:"final_call"`
	FinalRet  int64        `json:"final_ret"`
}

type c26Out struct {
	Hists   []c26HistOut `json:"hists"`
	Expired []string     `json:"expired"` // names reported by the pipe.expire hook
	Hits    uint64       `json:"hits"`
}

func init() {
	ops["c26.batch"] = func(c *proto.Case, r *proto.Result) {
		var a c26Args
		if err := json.Unmarshal(c.Args, &a); err != nil {
			r.Error = err.Error()
			return
		}
		var stamp atomic.Int64
		var out c26Out
		out.Hists = make([]c26HistOut, len(a.Hists))
		verifhook.DrainEvents()
		verifhook.EnableEvents(true)
		verifhook.ConfigureYield(a.YieldSeed != 0, a.YieldSeed)

		var wg sync.WaitGroup
		for hi := range a.Hists {
			wg.Add(1)
			go func(hi int) {
				defer wg.Done()
				h := a.Hists[hi]
				named := pipes.NewNamed()
				ho := &out.Hists[hi]
				ho.ID = h.ID
				var mu sync.Mutex
				var pw sync.WaitGroup
				for pi := range h.Procs {
					pw.Add(1)
					go func(pi int) {
						defer pw.Done()
						for _, op := range h.Procs[pi] {
							if op.Op == "sleep" {
								time.Sleep(time.Duration(op.SleepMs) * time.Millisecond)
								continue
							}
							e := c26Ev{Proc: pi, Op: op.Op, Name: op.Name}
							e.Call = stamp.Add(1)
							var err error
							switch op.Op {
							case "create":
								err = named.CreatePipe(op.Name, "std", "")
							case "expose":
								err = named.ExposePipe(op.Name, "std", streams.NewStdin())
							case "close":
								err = named.Close(op.Name)
							case "delete":
								err = named.Delete(op.Name)
							case "get":
								_, err = named.Get(op.Name)
							case "dump":
								e.Present = map[string]bool{}
								for n := range named.Dump() {
									e.Present[n] = true
								}
							}
							e.Ret = stamp.Add(1)
							e.OK = err == nil
							if err != nil {
								e.Err = err.Error()
							}
							mu.Lock()
							ho.Events = append(ho.Events, e)
							mu.Unlock()
						}
					}(pi)
				}
				pw.Wait()
				// quiescence: every pending close has a 2 s grace period
				time.Sleep(2600 * time.Millisecond)
				// on a loaded machine a delayed-close timer can fire late: a name whose last successful
				// registration change was a close is given up to 10 s more to disappear (bounded wait,
				// not a verdict: the controller's model decides)
				for polls := 0; polls < 100; polls++ {
					last := map[string]c26Ev{}
					mu.Lock()
					for _, e := range ho.Events {
						if !e.OK || e.Op == "get" || e.Op == "dump" {
							continue
						}
						if l, ok := last[e.Name]; !ok || e.Ret > l.Ret {
							last[e.Name] = e
						}
					}
					mu.Unlock()
					present := named.Dump()
					pending := false
					for n, e := range last {
						if _, there := present[n]; there && e.Op == "close" {
							pending = true
						}
					}
					if !pending {
						break
					}
					time.Sleep(100 * time.Millisecond)
				}
				ho.FinalCall = stamp.Add(1)
				ho.Final = map[string]bool{}
				for n := range named.Dump() {
					ho.Final[n] = true
				}
				ho.FinalRet = stamp.Add(1)
			}(hi)
		}
		wg.Wait()
		_, out.Hits = verifhook.Signature()
		verifhook.ConfigureYield(false, 0)
		verifhook.EnableEvents(false)
		for _, e := range verifhook.DrainEvents() {
			if e.Kind == "pipe.expire" && len(e.Args) > 0 {
				out.Expired = append(out.Expired, e.Args[0])
			}
		}
		r.Out, _ = json.Marshal(out)
	}
}
