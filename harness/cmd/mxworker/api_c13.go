package main

import (
	"encoding/json"
	"math"
	"strconv"

	"github.com/lmorg/murex/lang/types"

	"verif/proto"
)

type c13Args struct {
	Ints   []int64  `json:"ints"`
	Floats []uint64 `json:"floats"` // IEEE-754 bit patterns
	Bools  []bool   `json:"bools"`
}

type c13Item struct {
	S    string `json:"s"`    // string form produced by murex
	Back string `json:"back"` // value converted back (decimal int / float bits / bool)
	Err  string `json:"err,omitempty"`
}

type c13Out struct {
	Ints   []c13Item `json:"ints"`
	Floats []c13Item `json:"floats"`
	Bools  []c13Item `json:"bools"`
}

func init() {
	ops["c13.convert"] = func(c *proto.Case, r *proto.Result) {
		var a c13Args
		if err := json.Unmarshal(c.Args, &a); err != nil {
			r.Error = err.Error()
			return
		}
		var out c13Out
		for _, n := range a.Ints {
			var it c13Item
			s, err := types.ConvertGoType(int(n), types.String)
			if err != nil {
				it.Err = err.Error()
			} else {
				it.S, _ = s.(string)
				b, err := types.ConvertGoType(it.S, types.Integer)
				if err != nil {
					it.Err = err.Error()
				} else if i, ok := b.(int); ok {
					it.Back = strconv.FormatInt(int64(i), 10)
				} else {
					it.Err = "not an int"
				}
			}
			out.Ints = append(out.Ints, it)
		}
		for _, bits := range a.Floats {
			f := math.Float64frombits(bits)
			var it c13Item
			s, err := types.ConvertGoType(f, types.String)
			if err != nil {
				it.Err = err.Error()
			} else {
				it.S, _ = s.(string)
				dt := types.Number
				if bits&1 == 1 {
					dt = types.Float
				}
				b, err := types.ConvertGoType(it.S, dt)
				if err != nil {
					it.Err = err.Error()
				} else if g, ok := b.(float64); ok {
					it.Back = strconv.FormatUint(math.Float64bits(g), 10)
				} else {
					it.Err = "not a float64"
				}
			}
			out.Floats = append(out.Floats, it)
		}
		for _, v := range a.Bools {
			var it c13Item
			s, err := types.ConvertGoType(v, types.String)
			if err != nil {
				it.Err = err.Error()
			} else {
				it.S, _ = s.(string)
				b, err := types.ConvertGoType(it.S, types.Boolean)
				if err != nil {
					it.Err = err.Error()
				} else if g, ok := b.(bool); ok {
					it.Back = strconv.FormatBool(g)
				}
			}
			out.Bools = append(out.Bools, it)
		}
		r.Out, _ = json.Marshal(out)
	}
}
