package main

import (
	"encoding/json"
	"fmt"
	"sort"
	"sync"
	"sync/atomic"
	"time"

	"github.com/lmorg/murex/lang"
	"github.com/lmorg/murex/lang/ref"
	"github.com/lmorg/murex/utils/verifhook"

	"verif/proto"
)

type c28Args struct {
	Programs []string `json:"programs"`
	Runners  int      `json:"runners"`
	Seed     uint64   `json:"seed"`
}

type c28Out struct {
	Registered   int        `json:"registered"`
	Deregistered int        `json:"deregistered"`
	DupIDs       []string   `json:"dup_ids,omitempty"`       // an id handed out more than once in this process's lifetime
	LiveDups     []string   `json:"live_dups,omitempty"`     // two live table entries whose processes carry the same id
	NeverDereg   []string   `json:"never_dereg,omitempty"`   // registered in this batch, no deregister event once quiet
	Left         [][]string `json:"left"`                    // per program: processes still in the FID table once quiet
	Exits        []int      `json:"exits"`
	Errs         []string   `json:"errs"`
	Samples      int64      `json:"samples"`
	MaxLive      int        `json:"max_live"`
	Sig          string     `json:"sig"`
	Truncated    bool       `json:"truncated"`
}

// every id this worker process has ever seen registered
var (
	c28Mu   sync.Mutex
	c28Seen = map[string]int{}
)

func init() {
	ops["c28.concurrent"] = func(c *proto.Case, r *proto.Result) {
		var a c28Args
		if err := json.Unmarshal(c.Args, &a); err != nil {
			r.Error = err.Error()
			return
		}
		if a.Runners < 1 {
			a.Runners = 1
		}
		out := c28Out{Left: make([][]string, len(a.Programs)), Exits: make([]int, len(a.Programs)), Errs: make([]string, len(a.Programs))}

		verifhook.DrainEvents()
		verifhook.EnableEvents(true)
		verifhook.ConfigureYield(a.Seed != 0, a.Seed)

		// sampler: looks at the live table while the programs run
		var stop atomic.Bool
		var samplerDone sync.WaitGroup
		liveDups := map[string]bool{}
		samplerDone.Add(1)
		go func() {
			defer samplerDone.Done()
			for !stop.Load() {
				procs := lang.GlobalFIDs.ListAll()
				seen := map[uint32]int{}
				for _, p := range procs {
					seen[p.Id]++
				}
				for id, n := range seen {
					if n > 1 {
						liveDups[fmt.Sprint(id)] = true
					}
				}
				if len(procs) > out.MaxLive {
					out.MaxLive = len(procs)
				}
				out.Samples++
				time.Sleep(150 * time.Microsecond)
			}
		}()

		roots := make([]*lang.Process, len(a.Programs))
		jobs := make(chan int, len(a.Programs))
		for i := range a.Programs {
			jobs <- i
		}
		close(jobs)
		var wg sync.WaitGroup
		for w := 0; w < a.Runners; w++ {
			wg.Add(1)
			go func() {
				defer wg.Done()
				for i := range jobs {
					fork := lang.ShellProcess.Fork(lang.F_FUNCTION | lang.F_NEW_MODULE | lang.F_NO_STDIN | lang.F_CREATE_STDOUT | lang.F_CREATE_STDERR)
					fork.Name.Set("verif")
					fork.FileRef = &ref.File{Source: &ref.Source{Module: fmt.Sprintf("verif/%s-%d", c.ID, i)}}
					roots[i] = fork.Process
					exit, err := fork.Execute([]rune(a.Programs[i]))
					out.Exits[i] = exit
					if err != nil {
						out.Errs[i] = err.Error()
					}
					fork.Stdout.ReadAll()
					fork.Stderr.ReadAll()
				}
			}()
		}
		wg.Wait()
		sig, _ := verifhook.Signature()
		out.Sig = fmt.Sprintf("%016x", sig)
		verifhook.ConfigureYield(false, 0)

		for i, root := range roots {
			if root != nil {
				out.Left[i] = fidsLeft(root)
			}
			if out.Left[i] == nil {
				out.Left[i] = []string{}
			}
		}
		stop.Store(true)
		samplerDone.Wait()
		// deregistration is asynchronous: give the last goroutines a bounded number of polls
		var reg, dereg map[string]int
		var evs []verifhook.Ev
		for try := 0; try < 200; try++ {
			evs = append(evs, verifhook.DrainEvents()...)
			reg, dereg = map[string]int{}, map[string]int{}
			for _, e := range evs {
				if len(e.Args) == 0 {
					continue
				}
				switch e.Kind {
				case "fid.register":
					reg[e.Args[0]]++
				case "fid.deregister":
					dereg[e.Args[0]]++
				}
			}
			missing := 0
			for id := range reg {
				if dereg[id] == 0 {
					missing++
				}
			}
			if missing == 0 {
				break
			}
			time.Sleep(2 * time.Millisecond)
		}
		verifhook.EnableEvents(false)
		out.Truncated = len(evs) >= verifhook.MaxEvents
		c28Mu.Lock()
		for id, n := range reg {
			out.Registered += n
			c28Seen[id] += n
			if c28Seen[id] > 1 {
				out.DupIDs = append(out.DupIDs, id)
			}
			if dereg[id] == 0 {
				out.NeverDereg = append(out.NeverDereg, id)
			}
		}
		c28Mu.Unlock()
		for _, n := range dereg {
			out.Deregistered += n
		}
		for id := range liveDups {
			out.LiveDups = append(out.LiveDups, id)
		}
		sort.Strings(out.DupIDs)
		sort.Strings(out.NeverDereg)
		r.Out, _ = json.Marshal(out)
	}
}
