package main

import (
	"encoding/json"
	"fmt"
	"strings"
	"sync"

	"github.com/lmorg/murex/builtins/pipes/streams"
	"github.com/lmorg/murex/lang"
	"github.com/lmorg/murex/lang/ref"
	"github.com/lmorg/murex/lang/types"
	"github.com/lmorg/murex/utils/verifhook"

	"verif/proto"
)

// c10argv is a builtin that records the parameters it was run with
var (
	c10Mu    sync.Mutex
	c10Calls [][]string
)

func init() {
	lang.DefineFunction("c10argv", func(p *lang.Process) error {
		a := p.Parameters.StringArray()
		if a == nil {
			a = []string{}
		}
		c10Mu.Lock()
		c10Calls = append(c10Calls, a)
		c10Mu.Unlock()
		return nil
	}, types.Null)
}

type c10Res struct {
	Path    string     `json:"path"` // execute | esccli
	CmdLine string     `json:"cmdline"`
	Calls   [][]string `json:"calls"`
	Others  []string   `json:"others,omitempty"` // other commands murex executed
	Err     string     `json:"err,omitempty"`
	Stderr  string     `json:"stderr,omitempty"`
}

func c10Run(cmdline string, res *c10Res) {
	c10Mu.Lock()
	c10Calls = nil
	c10Mu.Unlock()
	verifhook.DrainEvents()
	verifhook.EnableEvents(true)
	fork := lang.ShellProcess.Fork(lang.F_FUNCTION | lang.F_NEW_MODULE | lang.F_NO_STDIN | lang.F_CREATE_STDOUT | lang.F_CREATE_STDERR)
	fork.Name.Set("verif")
	fork.FileRef = &ref.File{Source: &ref.Source{Module: "verif/c10"}}
	_, err := fork.Execute([]rune(cmdline))
	if err != nil {
		res.Err = err.Error()
	}
	fork.Stdout.ReadAll()
	b, _ := fork.Stderr.ReadAll()
	if len(b) > 300 {
		b = b[:300]
	}
	res.Stderr = string(b)
	verifhook.EnableEvents(false)
	for _, e := range verifhook.DrainEvents() {
		if e.Kind == "exec" && len(e.Args) >= 3 && e.Args[1] != "c10argv" {
			res.Others = append(res.Others, e.Args[1])
		}
	}
	c10Mu.Lock()
	res.Calls = c10Calls
	c10Calls = nil
	c10Mu.Unlock()
	if res.Calls == nil {
		res.Calls = [][]string{}
	}
}

func init() {
	ops["c10.roundtrip"] = func(c *proto.Case, r *proto.Result) {
		var vectors [][]string
		if err := json.Unmarshal(c.Args, &vectors); err != nil {
			r.Error = err.Error()
			return
		}
		out := make([][2]c10Res, len(vectors))
		for i, args := range vectors {
			// (1) the --execute path is exercised end to end by the controller (real main.go in the built binary)
			// (2) esccli on the same array, its output parsed as the parameters of a command
			out[i][1].Path = "esccli"
			func() {
				defer func() {
					if rec := recover(); rec != nil {
						out[i][1].Err = fmt.Sprint("panic: ", rec)
					}
				}()
				p := lang.NewTestProcess()
				defer lang.GlobalFIDs.Deregister(p.Id)
				p.Name.Set("esccli")
				cpa := make([]string, len(args))
				copy(cpa, args)
				p.Parameters.DefineParsed(cpa)
				so := streams.NewStdin()
				p.Stdout = so
				if err := lang.GoFunctions["esccli"](p); err != nil {
					out[i][1].Err = "esccli: " + err.Error()
					return
				}
				b, _ := so.ReadAll()
				line := strings.TrimSuffix(string(b), "\n")
				out[i][1].CmdLine = "c10argv " + line
				c10Run(out[i][1].CmdLine, &out[i][1])
			}()
		}
		r.Out, _ = json.Marshal(out)
	}
}
