package main

import (
	"encoding/json"
	"sync"
	"sync/atomic"

	"github.com/lmorg/murex/builtins/pipes/streams"
	"github.com/lmorg/murex/utils/verifhook"

	"verif/proto"
)

type c02Op struct {
	Op  string `json:"op"` // open close set get forceclose
	Arg string `json:"arg,omitempty"`
}

type c02Args struct {
	PreOpen   int       `json:"pre_open"`
	Procs     [][]c02Op `json:"procs"`
	YieldSeed uint64    `json:"yield_seed"`
	Tee       bool      `json:"tee"`
}

type c02Ev struct {
	Proc int    `json:"proc"`
	Op   string `json:"op"`
	Arg  string `json:"arg,omitempty"`
	Out  string `json:"out,omitempty"`
	Call int64  `json:"call"`
	Ret  int64  `json:"ret"`
}

type c02Out struct {
	Events []c02Ev `json:"events"`
	Sig    uint64  `json:"sig"`
	Hits   uint64  `json:"hits"`
}

func init() {
	ops["c02.hist"] = func(c *proto.Case, r *proto.Result) {
		var a c02Args
		if err := json.Unmarshal(c.Args, &a); err != nil {
			r.Error = err.Error()
			return
		}
		var stamp atomic.Int64
		stream := streams.NewStdin()
		var out c02Out
		var mu sync.Mutex
		rec := func(e c02Ev) { mu.Lock(); out.Events = append(out.Events, e); mu.Unlock() }

		for i := 0; i < a.PreOpen; i++ {
			call := stamp.Add(1)
			stream.Open()
			rec(c02Ev{Proc: -1, Op: "open", Call: call, Ret: stamp.Add(1)})
		}

		verifhook.ConfigureYield(a.YieldSeed != 0, a.YieldSeed)
		var wg sync.WaitGroup
		start := make(chan struct{})
		for pi := range a.Procs {
			wg.Add(1)
			go func(pi int) {
				defer wg.Done()
				<-start
				for _, op := range a.Procs[pi] {
					e := c02Ev{Proc: pi, Op: op.Op, Arg: op.Arg}
					e.Call = stamp.Add(1)
					switch op.Op {
					case "open":
						stream.Open()
					case "close":
						stream.Close()
					case "set":
						stream.SetDataType(op.Arg)
					case "get":
						e.Out = stream.GetDataType()
					case "forceclose":
						stream.ForceClose()
					}
					e.Ret = stamp.Add(1)
					rec(e)
				}
			}(pi)
		}
		close(start)
		wg.Wait()
		out.Sig, out.Hits = verifhook.Signature()
		verifhook.ConfigureYield(false, 0)
		r.Out, _ = json.Marshal(out)
	}
}
