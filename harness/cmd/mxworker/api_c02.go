package main

import (
	"encoding/json"
	"sync"
	"sync/atomic"

	"github.com/lmorg/murex/builtins/pipes/streams"
	"github.com/lmorg/murex/utils/verifhook"

	"verif/proto"
)

type c02Op struct {
	Op  string `json:"op"` // open close set get forceclose
	Arg string `json:"arg,omitempty"`
}

type c02Args struct {
	PreOpen   int       `json:"pre_open"`
	Procs     [][]c02Op `json:"procs"`
	YieldSeed uint64    `json:"yield_seed"`
	Tee       bool      `json:"tee"`
	// Burst > 0: that many tight-race trials instead of one scripted history: the
	// writers are released together from a spin barrier, each declares its own
	// type and closes, while a reader polls GetDataType
	Burst      int      `json:"burst,omitempty"`
	BurstTypes []string `json:"burst_types,omitempty"`
	// BurstKind "forceclosed": the type is declared and the stream force closed first; then a reader
	// polls GetDataType while other goroutines keep using the stream (Stats, Write, Read)
	BurstKind string `json:"burst_kind,omitempty"`
}

type c02Ev struct {
	Proc int    `json:"proc"`
	Op   string `json:"op"`
	Arg  string `json:"arg,omitempty"`
	Out  string `json:"out,omitempty"`
	Call int64  `json:"call"`
	Ret  int64  `json:"ret"`
}

type c02Out struct {
	Events []c02Ev   `json:"events"`
	Trials [][]c02Ev `json:"trials,omitempty"`
	Sig    uint64  `json:"sig"`
	Hits   uint64  `json:"hits"`
}

func init() {
	ops["c02.hist"] = func(c *proto.Case, r *proto.Result) {
		var a c02Args
		if err := json.Unmarshal(c.Args, &a); err != nil {
			r.Error = err.Error()
			return
		}
		var stamp atomic.Int64
		var out c02Out
		if a.Burst > 0 {
			for t := 0; t < a.Burst; t++ {
				if a.BurstKind == "forceclosed" {
					out.Trials = append(out.Trials, c02BurstForceClosed(&stamp, a.BurstTypes[t%len(a.BurstTypes)]))
					continue
				}
				out.Trials = append(out.Trials, c02Burst(&stamp, a.BurstTypes))
			}
			r.Out, _ = json.Marshal(out)
			return
		}
		stream := streams.NewStdin()
		var mu sync.Mutex
		rec := func(e c02Ev) { mu.Lock(); out.Events = append(out.Events, e); mu.Unlock() }

		for i := 0; i < a.PreOpen; i++ {
			call := stamp.Add(1)
			stream.Open()
			rec(c02Ev{Proc: -1, Op: "open", Call: call, Ret: stamp.Add(1)})
		}

		verifhook.ConfigureYield(a.YieldSeed != 0, a.YieldSeed)
		var wg sync.WaitGroup
		start := make(chan struct{})
		for pi := range a.Procs {
			wg.Add(1)
			go func(pi int) {
				defer wg.Done()
				<-start
				for _, op := range a.Procs[pi] {
					e := c02Ev{Proc: pi, Op: op.Op, Arg: op.Arg}
					e.Call = stamp.Add(1)
					switch op.Op {
					case "open":
						stream.Open()
					case "close":
						stream.Close()
					case "set":
						stream.SetDataType(op.Arg)
					case "get":
						e.Out = stream.GetDataType()
					case "forceclose":
						stream.ForceClose()
					}
					e.Ret = stamp.Add(1)
					rec(e)
				}
			}(pi)
		}
		close(start)
		wg.Wait()
		out.Sig, out.Hits = verifhook.Signature()
		verifhook.ConfigureYield(false, 0)
		r.Out, _ = json.Marshal(out)
	}
}

// c02BurstForceClosed: a declared type must still be reported after ForceClose, also while other
// goroutines are busy with the stream
func c02BurstForceClosed(stamp *atomic.Int64, dt string) []c02Ev {
	stream := streams.NewStdin()
	var evs []c02Ev
	rec := func(e c02Ev) { evs = append(evs, e) }
	e := c02Ev{Proc: -1, Op: "open", Call: stamp.Add(1)}
	stream.Open()
	e.Ret = stamp.Add(1)
	rec(e)
	e = c02Ev{Proc: 0, Op: "set", Arg: dt, Call: stamp.Add(1)}
	stream.SetDataType(dt)
	e.Ret = stamp.Add(1)
	rec(e)
	e = c02Ev{Proc: 0, Op: "forceclose", Call: stamp.Add(1)}
	stream.ForceClose()
	e.Ret = stamp.Add(1)
	rec(e)
	var stop atomic.Bool
	var wg sync.WaitGroup
	for i := 0; i < 6; i++ {
		wg.Add(1)
		go func(i int) {
			defer wg.Done()
			buf := make([]byte, 16)
			for !stop.Load() {
				switch i {
				case 0, 3, 4, 5:
					stream.Stats()
				case 1:
					stream.Write([]byte("x"))
				default:
					stream.Read(buf)
				}
			}
		}(i)
	}
	last := "\x00"
	var lastEv c02Ev
	for polls := 0; polls < 20000; polls++ {
		g := c02Ev{Proc: 1, Op: "get", Call: stamp.Add(1)}
		g.Out = stream.GetDataType()
		g.Ret = stamp.Add(1)
		if g.Out != last {
			rec(g)
			last = g.Out
		}
		lastEv = g
	}
	rec(lastEv)
	stop.Store(true)
	wg.Wait()
	return evs
}

// c02Burst runs one tight-race trial and returns its recorded history
func c02Burst(stamp *atomic.Int64, types []string) []c02Ev {
	stream := streams.NewStdin()
	var evs []c02Ev
	var mu sync.Mutex
	rec := func(e c02Ev) { mu.Lock(); evs = append(evs, e); mu.Unlock() }
	for range types {
		call := stamp.Add(1)
		stream.Open()
		rec(c02Ev{Proc: -1, Op: "open", Call: call, Ret: stamp.Add(1)})
	}
	var gate, closed atomic.Int32
	var wg sync.WaitGroup
	for i, dt := range types {
		wg.Add(1)
		go func(i int, dt string) {
			defer wg.Done()
			gate.Add(1)
			for gate.Load() < int32(len(types))+1 {
			}
			e := c02Ev{Proc: i, Op: "set", Arg: dt, Call: stamp.Add(1)}
			stream.SetDataType(dt)
			e.Ret = stamp.Add(1)
			rec(e)
			e = c02Ev{Proc: i, Op: "close", Call: stamp.Add(1)}
			stream.Close()
			e.Ret = stamp.Add(1)
			rec(e)
			closed.Add(1)
		}(i, dt)
	}
	wg.Add(1)
	go func() {
		defer wg.Done()
		gate.Add(1)
		for gate.Load() < int32(len(types))+1 {
		}
		last := "\x00"
		var lastEv c02Ev
		tail := 0
		for polls := 0; polls < 20000; polls++ {
			e := c02Ev{Proc: len(types), Op: "get", Call: stamp.Add(1)}
			e.Out = stream.GetDataType()
			e.Ret = stamp.Add(1)
			if e.Out != last {
				rec(e)
				last = e.Out
			}
			lastEv = e
			if closed.Load() == int32(len(types)) {
				tail++
				if tail > 20 {
					break
				}
			}
		}
		rec(lastEv)
	}()
	wg.Wait()
	return evs
}
