package main

import (
	"encoding/json"
	"fmt"
	"sync"
	"sync/atomic"

	"github.com/lmorg/murex/lang"

	"verif/proto"
)

type c27Op struct {
	Op  string `json:"op"` // add term gc get latest list
	Tag int    `json:"tag,omitempty"`
	ID  int    `json:"id,omitempty"`
}

type c27Args struct {
	Procs [][]c27Op `json:"procs"`
}

type c27Ev struct {
	Proc int      `json:"proc"`
	Op   c27Op    `json:"op"`
	Tag  int      `json:"tag"`            // get/latest: the job returned (0 = error)
	Err  string   `json:"err,omitempty"`
	List [][2]int `json:"list,omitempty"` // list: (job id, tag)
	Call int64    `json:"call"`
	Ret  int64    `json:"ret"`
}

func init() {
	ops["c27.hist"] = func(c *proto.Case, r *proto.Result) {
		var a c27Args
		if err := json.Unmarshal(c.Args, &a); err != nil {
			r.Error = err.Error()
			return
		}
		jobs := lang.NewJobs()
		var stamp atomic.Int64
		var mu sync.Mutex
		procs := map[int]*lang.Process{}
		tagOf := func(p *lang.Process) int {
			var t int
			fmt.Sscanf(p.Name.String(), "job-%d", &t)
			return t
		}
		var events []c27Ev
		var wg sync.WaitGroup
		start := make(chan struct{})
		for pi := range a.Procs {
			wg.Add(1)
			go func(pi int) {
				defer wg.Done()
				<-start
				for _, op := range a.Procs[pi] {
					e := c27Ev{Proc: pi, Op: op}
					var p *lang.Process
					if op.Op == "add" {
						p = lang.NewTestProcess()
						p.Name.Set(fmt.Sprintf("job-%d", op.Tag))
						mu.Lock()
						procs[op.Tag] = p
						mu.Unlock()
					}
					if op.Op == "term" {
						mu.Lock()
						p = procs[op.Tag]
						mu.Unlock()
					}
					e.Call = stamp.Add(1)
					switch op.Op {
					case "add":
						jobs.Add(p)
					case "term":
						if p != nil {
							p.SetTerminatedState(true)
						}
					case "gc":
						jobs.GarbageCollect()
					case "get":
						got, err := jobs.Get(op.ID)
						if err != nil {
							e.Err = err.Error()
						} else {
							e.Tag = tagOf(got)
						}
					case "latest":
						got, err := jobs.GetLatest()
						if err != nil {
							e.Err = err.Error()
						} else {
							e.Tag = tagOf(got)
						}
					case "list":
						for _, j := range jobs.List() {
							var id int
							fmt.Sscanf(j.JobId, "%%%d", &id)
							e.List = append(e.List, [2]int{id, tagOf(j.Process)})
						}
						if e.List == nil {
							e.List = [][2]int{}
						}
					}
					e.Ret = stamp.Add(1)
					mu.Lock()
					events = append(events, e)
					mu.Unlock()
				}
			}(pi)
		}
		close(start)
		wg.Wait()
		for _, p := range procs {
			lang.GlobalFIDs.Deregister(p.Id)
			p.Done()
		}
		r.Out, _ = json.Marshal(events)
	}
}
