// mxworker links murex from /repo's current working tree (build tag `verif`)
// and executes cases sent by the controller: murex programs in-process, or API
// level workloads. One JSON case per line on stdin, one JSON result per line on
// the (dup'ed) original stdout. fd 1 and fd 2 are redirected into a capture file
// so that crash banners written to os.Stderr are attributed to the case.
package main

import (
	"bufio"
	"encoding/json"
	"fmt"
	"os"
	"runtime"
	"sort"
	"strings"
	"sync"
	"syscall"
	"time"

	_ "github.com/lmorg/murex/builtins"
	"github.com/lmorg/murex/config"
	"github.com/lmorg/murex/config/defaults"
	"github.com/lmorg/murex/lang"
	"github.com/lmorg/murex/lang/ref"
	"github.com/lmorg/murex/utils/verifhook"

	"verif/proto"
)

var (
	protoOut   *os.File
	capFile    *os.File
	capOffset  int64
	ops        = map[string]func(c *proto.Case, r *proto.Result){}
	yieldMutex sync.Mutex
)

func main() {
	if len(os.Args) > 1 && os.Args[1] == "selftest" {
		fmt.Println("mxworker ok")
		return
	}

	fd, err := syscall.Dup(1)
	if err != nil {
		panic(err)
	}
	protoOut = os.NewFile(uintptr(fd), "proto")

	capPath := os.Getenv("VERIF_CAPTURE")
	if capPath == "" {
		capPath = fmt.Sprintf("/tmp/mxworker-%d.cap", os.Getpid())
	}
	capFile, err = os.OpenFile(capPath, os.O_CREATE|os.O_RDWR|os.O_TRUNC, 0644)
	if err != nil {
		panic(err)
	}
	syscall.Dup2(int(capFile.Fd()), 1)
	syscall.Dup2(int(capFile.Fd()), 2)

	if d := os.Getenv("VERIF_WORKDIR"); d != "" {
		os.Chdir(d)
	}

	defaults.Config(config.InitConf, false)
	lang.InitEnv()

	in := bufio.NewReaderSize(os.Stdin, 1<<20)
	w := bufio.NewWriter(protoOut)
	for {
		line, err := in.ReadBytes('\n')
		if len(line) > 1 {
			var c proto.Case
			if jerr := json.Unmarshal(line, &c); jerr != nil {
				writeResult(w, &proto.Result{ID: "?", Error: "bad case json: " + jerr.Error()})
			} else {
				res := runCase(&c)
				writeResult(w, res)
				if res.TimedOut {
					// goroutines of the stuck case cannot be reclaimed
					os.Exit(3)
				}
			}
		}
		if err != nil {
			break
		}
	}
}

func writeResult(w *bufio.Writer, r *proto.Result) {
	b, err := json.Marshal(r)
	if err != nil {
		b, _ = json.Marshal(&proto.Result{ID: r.ID, Error: "marshal: " + err.Error()})
	}
	w.Write(b)
	w.WriteByte('\n')
	w.Flush()
}

func captured() string {
	st, err := capFile.Stat()
	if err != nil || st.Size() <= capOffset {
		return ""
	}
	n := st.Size() - capOffset
	if n > 1<<20 {
		n = 1 << 20
	}
	b := make([]byte, n)
	capFile.ReadAt(b, capOffset)
	capOffset = st.Size()
	return string(b)
}

func progress() string {
	_, hits := verifhook.Signature()
	return fmt.Sprintf("%d/%d/%d", hits, len(lang.GlobalFIDs.ListAll()), runtime.NumGoroutine())
}

func runCase(c *proto.Case) *proto.Result {
	res := &proto.Result{ID: c.ID}
	fn := ops[c.Op]
	if fn == nil {
		res.Error = "unknown op " + c.Op
		return res
	}

	timeout := time.Duration(c.TimeoutMs) * time.Millisecond
	if timeout <= 0 {
		timeout = 30 * time.Second
	}

	done := make(chan struct{})
	go func() {
		defer func() {
			if r := recover(); r != nil {
				buf := make([]byte, 16384)
				buf = buf[:runtime.Stack(buf, false)]
				res.Crash = fmt.Sprintf("panic in worker op: %v\n%s", r, buf)
			}
			close(done)
		}()
		fn(c, res)
	}()

	select {
	case <-done:
	case <-time.After(timeout):
		// hang assessment (§2.5): progress counters over three samples
		s1 := progress()
		time.Sleep(700 * time.Millisecond)
		s2 := progress()
		time.Sleep(700 * time.Millisecond)
		s3 := progress()
		select {
		case <-done:
			// finished late: slow, not hung
		default:
			out := &proto.Result{ID: c.ID, TimedOut: true, NoProgress: s1 == s2 && s2 == s3}
			buf := make([]byte, 1<<20)
			buf = buf[:runtime.Stack(buf, true)]
			out.Dump = string(buf)
			out.OSErr = captured()
			return out
		}
	}

	if c.IdleMs > 0 {
		time.Sleep(time.Duration(c.IdleMs) * time.Millisecond)
	}
	res.OSErr = captured()
	return res
}

var moduleSeq int

// runProgram executes one murex block in-process, like test.RunMurexTests
func runProgram(c *proto.Case, seed uint64) proto.Run {
	var run proto.Run

	flags := lang.F_FUNCTION | lang.F_NEW_MODULE | lang.F_CREATE_STDOUT | lang.F_CREATE_STDERR
	if c.HasStdin {
		flags |= lang.F_CREATE_STDIN
	} else {
		flags |= lang.F_NO_STDIN
	}

	fork := lang.ShellProcess.Fork(flags)
	fork.Name.Set("verif")
	moduleSeq++
	fork.FileRef = &ref.File{Source: &ref.Source{Module: fmt.Sprintf("verif/%s-%d", c.ID, moduleSeq)}}

	if c.HasStdin {
		dt := c.StdinType
		if dt == "" {
			dt = "*"
		}
		fork.Stdin.SetDataType(dt)
		if len(c.Stdin) > 0 {
			fork.Stdin.Write(c.Stdin)
		}
	}

	for _, v := range c.Vars {
		if err := fork.Variables.Set(fork.Process, v.Name, v.Value, v.Type); err != nil {
			run.Err = "preset var: " + err.Error()
			return run
		}
	}

	// session-level config presets (C25): applied to the shell process's config,
	// restored to the declared default after the run
	var sess struct {
		SessionConfig [][]string `json:"session_config"`
	}
	if len(c.Args) > 0 {
		json.Unmarshal(c.Args, &sess)
	}
	for _, sc := range sess.SessionConfig {
		if len(sc) == 3 {
			if err := lang.ShellProcess.Config.Set(sc[0], sc[1], sc[2], nil); err != nil {
				run.Err = "session config: " + err.Error()
				return run
			}
		}
	}
	defer func() {
		for _, sc := range sess.SessionConfig {
			if len(sc) >= 2 {
				lang.ShellProcess.Config.Default(sc[0], sc[1], nil)
			}
		}
	}()

	if c.Events {
		verifhook.DrainEvents()
		verifhook.EnableEvents(true)
	}
	verifhook.ConfigureYield(seed != 0, seed)

	var outCh, errCh chan []byte
	if c.Drain {
		fork.Stdout.Open()
		fork.Stderr.Open()
		outCh, errCh = make(chan []byte, 1), make(chan []byte, 1)
		go func() { b, _ := fork.Stdout.ReadAll(); outCh <- b }()
		go func() { b, _ := fork.Stderr.ReadAll(); errCh <- b }()
	}

	exit, err := fork.Execute([]rune(c.Block))

	run.Sig, run.Hits = verifhook.Signature()
	verifhook.ConfigureYield(false, 0)

	run.Exit = exit
	if err != nil {
		run.Err = err.Error()
	}
	if c.Drain {
		fork.Stdout.Close()
		fork.Stderr.Close()
		run.Stdout, run.Stderr = <-outCh, <-errCh
	} else {
		run.Stdout, _ = fork.Stdout.ReadAll()
		run.Stderr, _ = fork.Stderr.ReadAll()
	}
	run.OutType = fork.Stdout.GetDataType()
	if run.Stdout == nil {
		run.Stdout = []byte{}
	}
	if run.Stderr == nil {
		run.Stderr = []byte{}
	}

	if c.FIDCheck {
		run.FIDsLeft = fidsLeft(fork.Process)
	}

	for _, name := range c.ReadVars {
		v, err := fork.Variables.GetString(name)
		if err != nil {
			if run.VarErrs == nil {
				run.VarErrs = map[string]string{}
			}
			run.VarErrs[name] = err.Error()
			continue
		}
		if run.Vars == nil {
			run.Vars = map[string]string{}
		}
		run.Vars[name] = v
	}

	for _, name := range c.ReadFiles {
		if b, err := os.ReadFile(name); err == nil {
			if run.Files == nil {
				run.Files = map[string][]byte{}
			}
			run.Files[name] = b
			os.Remove(name)
		}
	}

	if c.Events {
		verifhook.EnableEvents(false)
		for _, e := range verifhook.DrainEvents() {
			run.Events = append(run.Events, proto.Ev{Seq: e.Seq, Kind: e.Kind, Args: e.Args})
		}
	}
	return run
}

// fidsLeft polls the FID table (bounded number of logical retries) until no
// process descending from root is left; returns what remained
func fidsLeft(root *lang.Process) []string {
	var left []string
	stable := 0
	var prev string
	for try := 0; try < 400; try++ {
		left = left[:0]
		for _, p := range lang.GlobalFIDs.ListAll() {
			if descends(p, root) {
				left = append(left, fmt.Sprintf("%d:%s", p.Id, p.Name.String()))
			}
		}
		if len(left) == 0 {
			return nil
		}
		sort.Strings(left)
		cur := strings.Join(left, ",")
		if cur == prev {
			stable++
		} else {
			stable = 0
		}
		prev = cur
		if stable >= 150 { // unchanged over ~150 polls * 2ms
			break
		}
		time.Sleep(2 * time.Millisecond)
	}
	return left
}

func descends(p, root *lang.Process) bool {
	for i := 0; i < 64 && p != nil; i++ {
		if p == root || p.Id == root.Id {
			return true
		}
		if p.Parent == nil || p.Parent == p || p.Id == lang.ShellProcess.Id {
			return false
		}
		p = p.Parent
	}
	return false
}

func init() {
	ops["prog"] = func(c *proto.Case, r *proto.Result) {
		seeds := c.YieldSeeds
		if len(seeds) == 0 {
			seeds = []uint64{0}
		}
		if len(c.Blocks) > 0 {
			for _, b := range c.Blocks {
				cc := *c
				cc.Block = b
				r.Runs = append(r.Runs, runProgram(&cc, seeds[0]))
			}
			return
		}
		for _, s := range seeds {
			r.Runs = append(r.Runs, runProgram(c, s))
		}
	}
	ops["ping"] = func(c *proto.Case, r *proto.Result) {
		r.Out, _ = json.Marshal(map[string]any{"pid": os.Getpid(), "go": runtime.Version()})
	}
}
