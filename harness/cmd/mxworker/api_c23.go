package main

import (
	"encoding/json"

	"github.com/lmorg/murex/lang"

	"verif/proto"
)

type c23Param struct {
	Name        string `json:"name"`
	DataType    string `json:"type"`
	Description string `json:"desc"`
	HasDefault  bool   `json:"has_default"`
	Default     string `json:"default"`
	Optional    bool   `json:"optional"`
}

type c23Parsed struct {
	Params []c23Param `json:"params"`
	Err    string     `json:"err,omitempty"`
}

func init() {
	ops["c23.parse"] = func(c *proto.Case, r *proto.Result) {
		var sigs []string
		if err := json.Unmarshal(c.Args, &sigs); err != nil {
			r.Error = err.Error()
			return
		}
		out := make([]c23Parsed, len(sigs))
		for i, s := range sigs {
			mfp, err := lang.ParseMxFunctionParameters(s)
			if err != nil {
				out[i].Err = err.Error()
				continue
			}
			for _, p := range mfp {
				out[i].Params = append(out[i].Params, c23Param{Name: p.Name, DataType: p.DataType, Description: p.Description, HasDefault: p.HasDefault, Default: p.Default, Optional: p.Optional})
			}
		}
		r.Out, _ = json.Marshal(out)
	}
}
