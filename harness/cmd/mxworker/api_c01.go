package main

import (
	"bytes"
	"encoding/binary"
	"encoding/json"
	"io"
	"math/rand"
	"sync"
	"sync/atomic"
	"time"

	"github.com/lmorg/murex/builtins/pipes/streams"
	"github.com/lmorg/murex/utils/verifhook"

	"verif/proto"
)

// one writer: the sizes of its Write calls (0 = an empty write) and when it is opened
type c01Writer struct {
	Sizes []int `json:"sizes"`
	// OpenedBy: -1 = opened before the history starts; otherwise the index of the
	// (already running) writer that opens it after that writer's first write
	OpenedBy int `json:"opened_by"`
	// Via "readfrom": the writer hands its bytes over through stream.ReadFrom(src); src returns
	// one piece (Sizes, cut to the caller's buffer) per Read and, with EOFWithData, the last
	// piece together with io.EOF (as http bodies and decompressors do)
	Via         string `json:"via,omitempty"`
	EOFWithData bool   `json:"eof_with_data,omitempty"`
}

// c01Source serves a byte string in pieces
type c01Source struct {
	data        []byte
	pieces      []int
	eofWithData bool
}

func (s *c01Source) Read(p []byte) (int, error) {
	if len(s.data) == 0 {
		return 0, io.EOF
	}
	n := len(s.data)
	for len(s.pieces) > 0 && s.pieces[0] <= 0 {
		s.pieces = s.pieces[1:]
	}
	if len(s.pieces) > 0 && s.pieces[0] < n {
		n = s.pieces[0]
	}
	if n > len(p) {
		n = len(p)
	}
	copy(p, s.data[:n])
	s.data = s.data[n:]
	if len(s.pieces) > 0 {
		s.pieces[0] -= n
	}
	if len(s.data) == 0 && s.eofWithData {
		return n, io.EOF
	}
	return n, nil
}

type c01Args struct {
	Writers   []c01Writer `json:"writers"`
	Reader    string      `json:"reader"` // read | writeto | readall | read-then-readall
	ReadSeed  int64       `json:"read_seed"`
	YieldSeed uint64      `json:"yield_seed"`
	ReadsFirst int        `json:"reads_first"` // read-then-readall: number of Read calls before ReadAll
	// LateReader: the reader starts only once the pipe is full (a writer is parked on the
	// back-pressure limit) or every writer has finished
	LateReader bool `json:"late_reader,omitempty"`
}

type c01Chunk struct {
	W   int  `json:"w"`
	Seq int  `json:"seq"`
	Len int  `json:"len"`
	OK  bool `json:"ok"` // payload bytes are exactly the generated ones
}

type c01Sample struct {
	Written  uint64 `json:"written"`
	Read     uint64 `json:"read"`
	Buffered int    `json:"buffered"`
	Deps     int32  `json:"deps"`
	Max      int    `json:"max"`
}

type c01Out struct {
	Chunks      []c01Chunk  `json:"chunks"`
	Garbage     string      `json:"garbage,omitempty"` // framing error description
	TotalRead   int         `json:"total_read"`
	WriteErrs   []string    `json:"write_errs,omitempty"`
	ShortWrites int         `json:"short_writes"`
	CloseStamps []int64     `json:"close_stamps"`
	EOFStamp    int64       `json:"eof_stamp"`
	Samples     []c01Sample `json:"samples"`
	NSamples    int         `json:"n_samples"`
	NonMonotone string      `json:"non_monotone,omitempty"`
	FinalWritten uint64     `json:"final_written"`
	FinalRead    uint64     `json:"final_read"`
	ReadCalls    int        `json:"read_calls"`
	Sig          uint64     `json:"sig"`
	Hits         uint64     `json:"hits"`
	MaxBuffered  int        `json:"max_buffered"`
	LimitLifted  bool       `json:"limit_lifted"`
}

const c01Magic = 0xC1

func c01Payload(w, seq, n int) []byte {
	b := make([]byte, 10+n)
	b[0] = c01Magic
	b[1] = byte(w)
	binary.BigEndian.PutUint32(b[2:], uint32(seq))
	binary.BigEndian.PutUint32(b[6:], uint32(n))
	x := uint64(w+1)*0x9E3779B97F4A7C15 ^ uint64(seq+1)*0xBF58476D1CE4E5B9
	for i := 0; i < n; i++ {
		x ^= x << 13
		x ^= x >> 7
		x ^= x << 17
		b[10+i] = byte(x)
	}
	return b
}

// c01Parse splits the reader's byte stream back into chunks (independent framing parser)
func c01Parse(data []byte) (chunks []c01Chunk, garbage string) {
	i := 0
	for i < len(data) {
		if len(data)-i < 10 || data[i] != c01Magic {
			return chunks, "framing lost at offset " + itoa(i) + " of " + itoa(len(data))
		}
		w := int(data[i+1])
		seq := int(binary.BigEndian.Uint32(data[i+2:]))
		n := int(binary.BigEndian.Uint32(data[i+6:]))
		if i+10+n > len(data) {
			return chunks, "truncated chunk at offset " + itoa(i)
		}
		want := c01Payload(w, seq, n)
		chunks = append(chunks, c01Chunk{W: w, Seq: seq, Len: n, OK: bytes.Equal(want, data[i:i+10+n])})
		i += 10 + n
	}
	return chunks, ""
}

func itoa(i int) string { b, _ := json.Marshal(i); return string(b) }

func init() {
	ops["c01.pipe"] = func(c *proto.Case, r *proto.Result) {
		var a c01Args
		if err := json.Unmarshal(c.Args, &a); err != nil {
			r.Error = err.Error()
			return
		}
		var out c01Out
		var stamp atomic.Int64
		stream := streams.NewStdin()

		verifhook.ConfigureYield(a.YieldSeed != 0, a.YieldSeed)
		defer verifhook.ConfigureYield(false, 0)

		out.CloseStamps = make([]int64, len(a.Writers))
		start := make([]chan struct{}, len(a.Writers))
		for i := range a.Writers {
			start[i] = make(chan struct{})
			if a.Writers[i].OpenedBy < 0 {
				stream.Open()
			}
		}

		var wg sync.WaitGroup
		var mu sync.Mutex
		var handedOver [][]byte
		for wi := range a.Writers {
			wg.Add(1)
			go func(wi int) {
				defer wg.Done()
				<-start[wi]
				opened := false
				seq := 0
				if a.Writers[wi].Via == "readfrom" {
					for j := range a.Writers {
						if a.Writers[j].OpenedBy == wi {
							stream.Open()
							close(start[j])
						}
					}
					src := &c01Source{eofWithData: a.Writers[wi].EOFWithData}
					for _, n := range a.Writers[wi].Sizes {
						if n > 0 {
							src.data = append(src.data, c01Payload(wi, seq, n-10)...)
							seq++
						}
						src.pieces = append(src.pieces, n)
					}
					want := len(src.data)
					got, err := stream.ReadFrom(src)
					mu.Lock()
					if err != nil {
						out.WriteErrs = append(out.WriteErrs, "ReadFrom: "+err.Error())
					} else if int(got) != want {
						out.WriteErrs = append(out.WriteErrs, "ReadFrom reported "+itoa(int(got))+" bytes of the "+itoa(want)+" its source produced")
					}
					mu.Unlock()
					out.CloseStamps[wi] = stamp.Add(1)
					stream.Close()
					return
				}
				for k, n := range a.Writers[wi].Sizes {
					var p []byte
					if n > 0 {
						p = c01Payload(wi, seq, n-10) // n bytes in total: 10 byte header + payload
						seq++
					}
					// io.Writer contract: Write must not retain p, nor touch its spare
					// capacity. The slice handed over has 512 sentinel bytes of spare
					// capacity and is overwritten as soon as Write returns.
					var full []byte
					if len(p) > 0 {
						full = make([]byte, len(p), len(p)+512)
						copy(full, p)
						spare := full[len(p):cap(full)]
						for i := range spare {
							spare[i] = 0x5A
						}
						p = full
					}
					got, err := stream.Write(p)
					if full != nil {
						for i := range full {
							full[i] = 0xEE
						}
						spare := full[len(full):cap(full)]
						for i := range spare {
							if spare[i] != 0x5A {
								mu.Lock()
								out.WriteErrs = append(out.WriteErrs, "Write modified the spare capacity of the caller's slice")
								mu.Unlock()
								break
							}
						}
						// keep checking later: remember the slice
						mu.Lock()
						handedOver = append(handedOver, full)
						mu.Unlock()
					}
					if err != nil || got != len(p) {
						mu.Lock()
						if err != nil {
							out.WriteErrs = append(out.WriteErrs, err.Error())
						} else {
							out.ShortWrites++
						}
						mu.Unlock()
					}
					if k == 0 && !opened {
						opened = true
						// open (and release) the writers this one is responsible for
						for j := range a.Writers {
							if a.Writers[j].OpenedBy == wi {
								stream.Open()
								close(start[j])
							}
						}
					}
				}
				if !opened {
					for j := range a.Writers {
						if a.Writers[j].OpenedBy == wi {
							stream.Open()
							close(start[j])
						}
					}
				}
				out.CloseStamps[wi] = stamp.Add(1)
				stream.Close()
			}(wi)
		}

		// sampler
		stopSampler := make(chan struct{})
		samplerDone := make(chan struct{})
		go func() {
			defer close(samplerDone)
			var prevW, prevR uint64
			for {
				select {
				case <-stopSampler:
					return
				default:
				}
				buffered, deps, max := stream.VerifPeek()
				w, rd := stream.Stats()
				out.NSamples++
				if max == 0 {
					out.LimitLifted = true
				} else if buffered > out.MaxBuffered {
					out.MaxBuffered = buffered
				}
				if w < prevW || rd < prevR {
					if out.NonMonotone == "" {
						out.NonMonotone = "written " + itoa(int(prevW)) + "->" + itoa(int(w)) + " read " + itoa(int(prevR)) + "->" + itoa(int(rd))
					}
				}
				prevW, prevR = w, rd
				if len(out.Samples) < 64 && out.NSamples%16 == 1 {
					out.Samples = append(out.Samples, c01Sample{Written: w, Read: rd, Buffered: buffered, Deps: deps, Max: max})
				}
				time.Sleep(50 * time.Microsecond)
			}
		}()

		for i := range a.Writers {
			if a.Writers[i].OpenedBy < 0 {
				close(start[i])
			}
		}

		// reader
		rr := rand.New(rand.NewSource(a.ReadSeed))
		var data []byte
		readLoop := func(maxCalls int) bool {
			buf := make([]byte, 65536)
			for calls := 0; maxCalls <= 0 || calls < maxCalls; calls++ {
				n := 1 + rr.Intn(4096)
				if rr.Intn(8) == 0 {
					n = 1 + rr.Intn(65536)
				}
				got, err := stream.Read(buf[:n])
				out.ReadCalls++
				data = append(data, buf[:got]...)
				if err == io.EOF {
					return true
				}
				if err != nil {
					mu.Lock()
					out.WriteErrs = append(out.WriteErrs, "read: "+err.Error())
					mu.Unlock()
					return true
				}
			}
			return false
		}
		if a.LateReader {
			for polls := 0; polls < 20000; polls++ {
				buffered, deps, max := stream.VerifPeek()
				if deps < 1 || (max > 0 && buffered >= max) {
					break
				}
				time.Sleep(100 * time.Microsecond)
			}
			// let the writer that found the pipe full settle into its wait
			time.Sleep(5 * time.Millisecond)
		}
		switch a.Reader {
		case "read":
			readLoop(0)
		case "writeto":
			var b bytes.Buffer
			stream.WriteTo(&b)
			data = b.Bytes()
		case "readall":
			b, _ := stream.ReadAll()
			data = append(data, b...)
		case "read-then-readall":
			if !readLoop(a.ReadsFirst) {
				b, _ := stream.ReadAll()
				data = append(data, b...)
			}
		}
		out.EOFStamp = stamp.Add(1)
		wg.Wait()
		close(stopSampler)
		<-samplerDone

		// after everything has been read: nothing may have been stored in the callers' arrays
		budget := 0
		for _, full := range handedOver {
			budget += len(full)
			if budget > 64<<20 {
				break
			}
			spare := full[len(full):cap(full)]
			for i := range spare {
				if spare[i] != 0x5A {
					out.WriteErrs = append(out.WriteErrs, "the pipe stored data in the spare capacity of a slice passed to Write")
					break
				}
			}
		}
		out.TotalRead = len(data)
		out.Chunks, out.Garbage = c01Parse(data)
		out.FinalWritten, out.FinalRead = stream.Stats()
		out.Sig, out.Hits = verifhook.Signature()
		r.Out, _ = json.Marshal(out)
	}
}
