package main

import (
	"context"
	"encoding/json"
	"fmt"
	"sort"
	"time"

	"github.com/lmorg/murex/builtins/pipes/streams"
	"github.com/lmorg/murex/lang/stdio"

	"verif/proto"
)

type c15Args struct {
	Type  string   `json:"type"`
	Elems []string `json:"elems"`
}

type c15Out struct {
	Types    []string `json:"types,omitempty"` // for c15.types
	Got      []string `json:"got"`
	WriteErr string   `json:"write_err,omitempty"`
	ReadErr  string   `json:"read_err,omitempty"`
	Raw      string   `json:"raw,omitempty"`
}

func init() {
	ops["c15.types"] = func(c *proto.Case, r *proto.Result) {
		rd := map[string]bool{}
		for _, t := range stdio.DumpReadArray() {
			rd[t] = true
		}
		var both []string
		for _, t := range stdio.DumpWriteArray() {
			if rd[t] {
				both = append(both, t)
			}
		}
		sort.Strings(both)
		r.Out, _ = json.Marshal(c15Out{Types: both})
	}

	ops["c15.roundtrip"] = func(c *proto.Case, r *proto.Result) {
		var a c15Args
		if err := json.Unmarshal(c.Args, &a); err != nil {
			r.Error = err.Error()
			return
		}
		var out c15Out
		stream := streams.NewStdin()
		stream.SetDataType(a.Type)
		stream.Open()
		werr := make(chan error, 1)
		go func() {
			defer stream.Close()
			w, err := stream.WriteArray(a.Type)
			if err != nil {
				werr <- err
				return
			}
			for i, e := range a.Elems {
				if i%2 == 0 {
					err = w.WriteString(e)
				} else {
					err = w.Write([]byte(e))
				}
				if err != nil {
					werr <- fmt.Errorf("element %d: %v", i, err)
					return
				}
			}
			werr <- w.Close()
		}()

		// keep a copy of the raw bytes for the report (small cases only)
		ctx, cancel := context.WithTimeout(context.Background(), 20*time.Second)
		defer cancel()
		got := []string{}
		rerr := stream.ReadArray(ctx, func(b []byte) {
			got = append(got, string(b))
		})
		if err := <-werr; err != nil {
			out.WriteErr = err.Error()
		}
		if rerr != nil {
			out.ReadErr = rerr.Error()
		}
		out.Got = got
		r.Out, _ = json.Marshal(out)
	}
}
