package main

import (
	"encoding/json"
	"fmt"
	"math/rand"
	"os"
	"path/filepath"
	"sort"

	"github.com/lmorg/murex/shell/history"

	"verif/proto"
)

type c29Args struct {
	// Before: sessions that ran before the crash; the last command of the last
	// session is the write that is torn
	Before [][]string `json:"before"`
	// After: sessions that run after the crash and append more commands
	After    [][]string `json:"after"`
	Seed     int64      `json:"seed"`
	MaxTorn  int        `json:"max_torn"` // cap on the number of torn states for long last lines
}

type c29State struct {
	Off  int64 `json:"off"`  // file size after truncation
	Rel  int64 `json:"rel"`  // bytes of the last line that survived
	Line int64 `json:"line"` // length of the complete last line (with its newline)
	// List: the history a new session loads: index into the command table, or -1
	List    []int    `json:"list"`
	Unknown []string `json:"unknown,omitempty"` // blocks that are no recorded command
}

type c29Out struct {
	States []c29State `json:"states"`
	Start  int64      `json:"start"`
	End    int64      `json:"end"`
	Err    string     `json:"err,omitempty"`
}

func c29WriteSessions(file string, sessions [][]string) error {
	for _, cmds := range sessions {
		h, err := history.New(file)
		if err != nil {
			return err
		}
		for _, c := range cmds {
			if _, err := h.Write(c); err != nil {
				return err
			}
		}
	}
	return nil
}

func init() {
	ops["c29.torn"] = func(c *proto.Case, r *proto.Result) {
		var a c29Args
		if err := json.Unmarshal(c.Args, &a); err != nil {
			r.Error = err.Error()
			return
		}
		dir, err := os.MkdirTemp("", "c29-")
		if err != nil {
			r.Error = err.Error()
			return
		}
		defer os.RemoveAll(dir)
		var out c29Out

		// command table
		index := map[string]int{}
		n := 0
		for _, sess := range append(append([][]string{}, a.Before...), a.After...) {
			for _, cmd := range sess {
				if _, ok := index[cmd]; !ok {
					index[cmd] = n
				}
				n++
			}
		}
		// index must identify positions, not texts: rebuild as position list per text
		positions := map[string][]int{}
		n = 0
		for _, sess := range append(append([][]string{}, a.Before...), a.After...) {
			for _, cmd := range sess {
				positions[cmd] = append(positions[cmd], n)
				n++
			}
		}

		base := filepath.Join(dir, "base.hist")
		// everything but the last command
		last := a.Before[len(a.Before)-1]
		head := append([][]string{}, a.Before[:len(a.Before)-1]...)
		head = append(head, last[:len(last)-1])
		if err := c29WriteSessions(base, head); err != nil {
			out.Err = err.Error()
		}
		if fi, err := os.Stat(base); err == nil {
			out.Start = fi.Size()
		}
		// the torn write (continuing the last session: same History object semantics are
		// not needed for the file contents)
		if err := c29WriteSessions(base, [][]string{{last[len(last)-1]}}); err != nil {
			out.Err = err.Error()
		}
		fi, err := os.Stat(base)
		if err != nil {
			r.Error = "history file was not created: " + err.Error()
			return
		}
		out.End = fi.Size()
		full, _ := os.ReadFile(base)

		// crash points
		var offs []int64
		lineLen := out.End - out.Start
		if lineLen <= 4096 {
			for o := out.Start; o <= out.End; o++ {
				offs = append(offs, o)
			}
		} else {
			rr := rand.New(rand.NewSource(a.Seed))
			set := map[int64]bool{out.Start: true, out.End: true, out.End - 1: true, out.Start + 1: true}
			for i := 0; i < a.MaxTorn; i++ {
				set[out.Start+rr.Int63n(lineLen+1)] = true
			}
			for m := (out.Start/65536 + 1) * 65536; m < out.End; m += 65536 {
				for d := int64(-32); d <= 32; d++ {
					if m+d >= out.Start && m+d <= out.End {
						set[m+d] = true
					}
				}
			}
			for o := range set {
				offs = append(offs, o)
			}
			sort.Slice(offs, func(i, j int) bool { return offs[i] < offs[j] })
		}

		for _, off := range offs {
			file := filepath.Join(dir, fmt.Sprintf("t%d.hist", off))
			if err := os.WriteFile(file, full[:off], 0600); err != nil {
				r.Error = err.Error()
				return
			}
			st := c29State{Off: off, Rel: off - out.Start, Line: lineLen}
			if err := c29WriteSessions(file, a.After); err != nil {
				out.Err = err.Error()
			}
			h, _ := history.New(file)
			for i := 0; i < h.Len(); i++ {
				b, _ := h.GetLine(i)
				pos, ok := positions[b]
				if !ok {
					st.List = append(st.List, -1)
					if len(b) > 60 {
						b = b[:60] + fmt.Sprintf("...(%d bytes)", len(b))
					}
					st.Unknown = append(st.Unknown, b)
					continue
				}
				// a command is identified by the first position at which its text occurs
				st.List = append(st.List, pos[0])
			}
			out.States = append(out.States, st)
			os.Remove(file)
		}
		r.Out, _ = json.Marshal(out)
	}
}
