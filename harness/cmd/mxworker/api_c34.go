package main

import (
	"encoding/json"
	"fmt"
	"regexp"
	"strings"

	"github.com/lmorg/murex/builtins/pipes/streams"
	"github.com/lmorg/murex/lang"
	"github.com/lmorg/murex/lang/ref"
	"github.com/lmorg/murex/utils/parser"
	"github.com/lmorg/murex/utils/verifhook"

	"verif/proto"
)

type c34Exec struct {
	Name string `json:"name"`
	Kind string `json:"kind"`
}

type c34Line struct {
	Panic    string    `json:"panic,omitempty"`
	Unsafe   bool      `json:"unsafe"`
	LastFlow int       `json:"last_flow"`
	Text     string    `json:"text"`                // what autocomplete would execute
	ParseErr string    `json:"parse_err,omitempty"` // the real parser rejects that text
	Static   []string  `json:"static,omitempty"`    // commands the real parser yields (recursively through blocks handed to block-running commands)
	Assign   []string  `json:"assign,omitempty"`    // expression statements that assign
	Redirect []string  `json:"redirect,omitempty"`  // file redirection statements / named-pipe parameters
	Ran      bool      `json:"ran"`
	Executed []c34Exec `json:"executed,omitempty"`
	ExecErr  string    `json:"exec_err,omitempty"`
}

type c34Out struct {
	Safe  []string  `json:"safe"`
	Lines []c34Line `json:"lines"`
}

// commands that run the code blocks they are given as parameters
var c34BlockRunners = map[string]bool{"if": true, "!if": true, "try": true, "trypipe": true, "tryerr": true, "trypipeerr": true, "and": true, "or": true, "!and": true, "!or": true, "foreach": true, "formap": true, "while": true, "!while": true, "for": true, "catch": true, "!catch": true, "!": true, "time": true, "runmode": true, "unsafe": true, "switch": true}

var c34AssignRx = regexp.MustCompile(`(^|[^=!<>~+\-*/.:?|])(=|\+=|-=|\*=|/=|:=|\?\?=|\|\|=)([^=~>]|$)|\+\+|--`)

func c34Walk(block []rune, depth int, l *c34Line) error {
	fns, err := lang.ParseBlock(block)
	if err != nil {
		return err
	}
	for _, f := range *fns {
		name := string(f.CommandName())
		if name == lang.ExpressionFunctionName {
			raw := string(f.Raw)
			if len(f.Parameters) > 0 {
				raw = string(f.Parameters[0])
			}
			if c34AssignRx.MatchString(raw) {
				l.Assign = append(l.Assign, raw)
			}
			continue
		}
		l.Static = append(l.Static, name)
		if name == ">" || name == ">>" {
			l.Redirect = append(l.Redirect, string(f.Raw))
		}
		if c34BlockRunners[name] && depth < 6 {
			for _, p := range f.Parameters {
				s := strings.TrimSpace(string(p))
				if len(s) >= 2 && s[0] == '{' && s[len(s)-1] == '}' {
					// a block-running command is handed this text as code
					c34Walk([]rune(s[1:len(s)-1]), depth+1, l)
				}
			}
		}
	}
	return nil
}

var c34Defined bool

func init() {
	ops["c34.lines"] = func(c *proto.Case, r *proto.Result) {
		var inputs []string
		if err := json.Unmarshal(c.Args, &inputs); err != nil {
			r.Error = err.Error()
			return
		}
		if !c34Defined {
			// harmless commands that are NOT on the safe list
			fork := lang.ShellProcess.Fork(lang.F_FUNCTION | lang.F_NEW_MODULE | lang.F_NO_STDIN | lang.F_CREATE_STDOUT | lang.F_CREATE_STDERR)
			fork.Name.Set("verif")
			fork.FileRef = &ref.File{Source: &ref.Source{Module: "verif/c34"}}
			if _, err := fork.Execute([]rune("function c34u { out u }\nfunction c34w { out w }\n")); err != nil {
				r.Error = "defining helper functions: " + err.Error()
				return
			}
			if !lang.MxFunctions.Exists("c34u") || !lang.MxFunctions.Exists("c34w") {
				r.Error = "helper functions were not defined"
				return
			}
			c34Defined = true
		}
		out := c34Out{Safe: parser.GetSafeCmds(), Lines: make([]c34Line, len(inputs))}
		for i, s := range inputs {
			l := &out.Lines[i]
			tmp := []rune(s)
			runes := make([]rune, len(tmp))
			copy(runes, tmp)
			var pt parser.ParsedTokens
			func() {
				defer c20Recover(&l.Panic)
				pt, _ = parser.Parse(runes, 0)
			}()
			if l.Panic != "" {
				continue
			}
			l.Unsafe, l.LastFlow = pt.Unsafe, pt.LastFlowToken
			if pt.Unsafe || pt.LastFlowToken <= 0 || pt.LastFlowToken > len(runes) {
				continue
			}
			text := pt.Source[:pt.LastFlowToken]
			l.Text = string(text)
			func() {
				defer c20Recover(&l.Panic)
				if err := c34Walk(text, 0, l); err != nil {
					l.ParseErr = err.Error()
				}
			}()
			if l.Panic != "" {
				continue
			}

			// run it exactly the way shell/autocomplete/dynamic.go does
			verifhook.DrainEvents()
			verifhook.EnableEvents(true)
			func() {
				defer c20Recover(&l.Panic)
				cmdline := lang.ShellProcess.Fork(lang.F_BACKGROUND | lang.F_NO_STDIN | lang.F_NO_STDERR)
				stdout := streams.NewStdin()
				cmdline.Stdout = stdout
				cmdline.Name.Set("c34")
				_, err := cmdline.Execute(text)
				if err != nil {
					l.ExecErr = err.Error()
				}
				stdout.ReadAll()
				l.Ran = true
			}()
			verifhook.EnableEvents(false)
			for _, e := range verifhook.DrainEvents() {
				if e.Kind == "exec" && len(e.Args) >= 3 {
					l.Executed = append(l.Executed, c34Exec{Name: fmt.Sprint(e.Args[1]), Kind: fmt.Sprint(e.Args[2])})
				}
			}
		}
		r.Out, _ = json.Marshal(out)
	}
}
