package main

import (
	"encoding/json"
	"fmt"

	"github.com/lmorg/murex/lang/parameters"

	"verif/proto"
)

type c24Item struct {
	Params             []string          `json:"params"`
	AllowAdditional    bool              `json:"allow_additional"`
	IgnoreInvalidFlags bool              `json:"ignore_invalid"`
	StrictFlagPlacement bool             `json:"strict"`
	Flags              map[string]string `json:"flags"`
}

type c24Res struct {
	Flags      map[string]any `json:"flags"`
	Additional []string       `json:"additional"`
	Err        string         `json:"err,omitempty"`
	Panic      string         `json:"panic,omitempty"`
}

func init() {
	ops["c24.parse"] = func(c *proto.Case, r *proto.Result) {
		var items []c24Item
		if err := json.Unmarshal(c.Args, &items); err != nil {
			r.Error = err.Error()
			return
		}
		out := make([]c24Res, len(items))
		for i, it := range items {
			func() {
				defer func() {
					if p := recover(); p != nil {
						out[i].Panic = fmt.Sprint(p)
					}
				}()
				params := append([]string{}, it.Params...)
				table := map[string]string{}
				for k, v := range it.Flags {
					table[k] = v
				}
				f, add, err := parameters.ParseFlags(params, &parameters.Arguments{AllowAdditional: it.AllowAdditional, IgnoreInvalidFlags: it.IgnoreInvalidFlags, StrictFlagPlacement: it.StrictFlagPlacement, Flags: table})
				if err != nil {
					out[i].Err = err.Error()
					return
				}
				out[i].Flags = f.GetMap()
				out[i].Additional = add
			}()
		}
		r.Out, _ = json.Marshal(out)
	}
}
