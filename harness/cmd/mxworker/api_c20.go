package main

import (
	"encoding/json"
	"fmt"
	"runtime"
	"strings"

	"github.com/lmorg/murex/lang"
	"github.com/lmorg/murex/lang/expressions"
	"github.com/lmorg/murex/utils/parser"

	"verif/proto"
)

type c20Res struct {
	BlockPanic string `json:"block_panic,omitempty"` // lang.ParseBlock
	ExprPanic  string `json:"expr_panic,omitempty"`  // expressions: statement/expression parser without execution
	TokPanic   string `json:"tok_panic,omitempty"`   // parser.Parse (highlighting / autocomplete tokenizer)
	BlockErr   bool   `json:"block_err"`
	HL         string `json:"hl"`
	Unsafe     bool   `json:"unsafe"`
	LastFlow   int    `json:"last_flow"`
}

func c20Recover(dst *string) {
	if r := recover(); r != nil {
		buf := make([]byte, 4096)
		buf = buf[:runtime.Stack(buf, false)]
		frame := ""
		for _, l := range strings.Split(string(buf), "\n") {
			if strings.HasPrefix(l, "github.com/lmorg/murex/") {
				frame = l
				if i := strings.LastIndex(frame, "("); i > 0 {
					frame = frame[:i]
				}
				break
			}
		}
		*dst = fmt.Sprintf("%v @ %s", r, strings.TrimPrefix(frame, "github.com/lmorg/murex/"))
	}
}

func init() {
	ops["c20.parse"] = func(c *proto.Case, r *proto.Result) {
		var inputs []string
		if err := json.Unmarshal(c.Args, &inputs); err != nil {
			r.Error = err.Error()
			return
		}
		out := make([]c20Res, len(inputs))
		tp := lang.NewTestProcess()
		defer lang.GlobalFIDs.Deregister(tp.Id)
		for i, s := range inputs {
			// exact capacity: spare capacity would hide a slice that runs past the end
			tmp := []rune(s)
			runes := make([]rune, len(tmp))
			copy(runes, tmp)
			runes = runes[:len(runes):len(runes)]
			func() {
				defer c20Recover(&out[i].BlockPanic)
				_, err := lang.ParseBlock(runes)
				out[i].BlockErr = err != nil
			}()
			func() {
				defer c20Recover(&out[i].ExprPanic)
				expressions.ExpressionParser(runes, 0, false)
				tree := expressions.NewParser(tp, runes, 0)
				tree.ParseStatement(false)
			}()
			func() {
				defer c20Recover(&out[i].TokPanic)
				pt, hl := parser.Parse(runes, 0)
				out[i].HL, out[i].Unsafe, out[i].LastFlow = hl, pt.Unsafe, pt.LastFlowToken
				if len(runes) > 1 {
					parser.Parse(runes, len(runes)/2)
				}
			}()
		}
		r.Out, _ = json.Marshal(out)
	}
}
