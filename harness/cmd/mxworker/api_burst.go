package main

import (
	"encoding/json"
	"fmt"
	"runtime"
	"sync"
	"sync/atomic"

	"github.com/lmorg/murex/lang"
	"github.com/lmorg/murex/lang/pipes"

	"verif/proto"
)

// Tight-race trials: goroutines released together from a spin barrier, so that the
// windows between two short critical sections are actually hit (the scripted histories
// of C26 / C27 rarely do).

type burstArgs struct {
	Trials int `json:"trials"`
	Width  int `json:"width"`
}

type burstOut struct {
	Trials    int      `json:"trials"`
	Anomalies int      `json:"anomalies"`
	Examples  []string `json:"examples,omitempty"`
}

func barrier(n int, fn func(i int)) {
	var ready, wg sync.WaitGroup
	var gate atomic.Bool
	ready.Add(n)
	wg.Add(n)
	for i := 0; i < n; i++ {
		go func(i int) {
			defer wg.Done()
			ready.Done()
			for !gate.Load() {
				runtime.Gosched()
			}
			fn(i)
		}(i)
	}
	ready.Wait()
	gate.Store(true)
	wg.Wait()
}

func init() {
	// C26: concurrent CreatePipe of one name: exactly one creator may succeed, and the
	// pipe registered under the name must be reachable
	ops["c26.burst"] = func(c *proto.Case, r *proto.Result) {
		var a burstArgs
		json.Unmarshal(c.Args, &a)
		out := burstOut{Trials: a.Trials}
		for t := 0; t < a.Trials; t++ {
			named := pipes.NewNamed()
			name := fmt.Sprintf("b%d", t)
			var okCount atomic.Int32
			barrier(a.Width, func(i int) {
				if named.CreatePipe(name, "std", "") == nil {
					okCount.Add(1)
				}
			})
			_, getErr := named.Get(name)
			if okCount.Load() != 1 || getErr != nil {
				out.Anomalies++
				if len(out.Examples) < 3 {
					out.Examples = append(out.Examples, fmt.Sprintf("trial %d: %d of %d concurrent CreatePipe(%q) calls reported success (Get afterwards: %v)", t, okCount.Load(), a.Width, name, getErr))
				}
			}
			named.Delete(name)
		}
		r.Out, _ = json.Marshal(out)
	}

	// C27: a job added while the job table is being garbage collected must stay listed,
	// reachable under its id, and no id may be handed to two running jobs
	ops["c27.burst"] = func(c *proto.Case, r *proto.Result) {
		var a burstArgs
		json.Unmarshal(c.Args, &a)
		out := burstOut{Trials: a.Trials}
		var made []*lang.Process
		mk := func(tag string) *lang.Process {
			p := lang.NewTestProcess()
			p.Name.Set(tag)
			made = append(made, p)
			return p
		}
		for t := 0; t < a.Trials; t++ {
			jobs := lang.NewJobs()
			k := 1 + t%3
			var old []*lang.Process
			for i := 0; i < k; i++ {
				p := mk(fmt.Sprintf("old-%d-%d", t, i))
				jobs.Add(p)
				old = append(old, p)
			}
			// the tail (and sometimes the head) has finished: collectable
			old[k-1].SetTerminatedState(true)
			if t%2 == 0 && k > 1 {
				old[0].SetTerminatedState(true)
			}
			adds := make([]*lang.Process, a.Width-1)
			var mu sync.Mutex
			barrier(a.Width, func(i int) {
				if i == 0 {
					jobs.GarbageCollect()
					return
				}
				p := lang.NewTestProcess()
				p.Name.Set(fmt.Sprintf("new-%d-%d", t, i))
				mu.Lock()
				adds[i-1] = p
				made = append(made, p)
				mu.Unlock()
				jobs.Add(p)
			})
			listed := map[*lang.Process]string{}
			ids := map[string]int{}
			for _, j := range jobs.List() {
				listed[j.Process] = j.JobId
				ids[j.JobId]++
			}
			bad := ""
			for _, p := range adds {
				id, ok := listed[p]
				if !ok {
					bad = fmt.Sprintf("job %s added during GarbageCollect is running but no longer listed", p.Name.String())
					break
				}
				var n int
				fmt.Sscanf(id, "%%%d", &n)
				if got, err := jobs.Get(n); err != nil || got != p {
					bad = fmt.Sprintf("job %s is listed as %s but Get(%d) returns %v (%v)", p.Name.String(), id, n, got, err)
					break
				}
			}
			for id, n := range ids {
				if n > 1 {
					bad = fmt.Sprintf("job id %s is listed for %d running jobs", id, n)
				}
			}
			for i, p := range old {
				if !p.HasTerminated() {
					if _, ok := listed[p]; !ok {
						bad = fmt.Sprintf("running job old-%d-%d is no longer listed", t, i)
					}
				}
			}
			if bad != "" {
				out.Anomalies++
				if len(out.Examples) < 3 {
					out.Examples = append(out.Examples, fmt.Sprintf("trial %d (%d jobs before, tail finished): %s", t, k, bad))
				}
			}
			if len(made) > 2000 {
				for _, p := range made {
					lang.GlobalFIDs.Deregister(p.Id)
					p.Done()
				}
				made = made[:0]
			}
		}
		for _, p := range made {
			lang.GlobalFIDs.Deregister(p.Id)
			p.Done()
		}
		r.Out, _ = json.Marshal(out)
	}
}
