package main

import (
	"context"
	"encoding/json"
	"fmt"
	"os"
	"path/filepath"
	"sync"
	"time"

	"github.com/lmorg/murex/utils/cache"

	"verif/proto"
)

type c30Op struct {
	Op    string          `json:"op"` // write read trim clear sleep
	NS    string          `json:"ns,omitempty"`
	Key   string          `json:"key,omitempty"`
	Value json.RawMessage `json:"value,omitempty"`
	TTL   string          `json:"ttl,omitempty"` // dead | live | short
	Ms    int             `json:"ms,omitempty"`
}

type c30Res struct {
	Found bool            `json:"found"`
	Value json.RawMessage `json:"value,omitempty"`
}

var c30Init sync.Once

func init() {
	ops["c30.hist"] = func(c *proto.Case, r *proto.Result) {
		var opsList []c30Op
		if err := json.Unmarshal(c.Args, &opsList); err != nil {
			r.Error = err.Error()
			return
		}
		c30Init.Do(func() {
			dir := os.Getenv("TMPDIR")
			if dir == "" {
				dir = os.TempDir()
			}
			cache.SetPath(filepath.Join(dir, fmt.Sprintf("verif-cache-%d.db", os.Getpid())))
			cache.InitCache()
		})
		ctx := context.Background()
		// a namespace that InitCache does not know (the `preview_event:<name>` kind) is set up by its
		// first Read, which is also what its only user, the onPreview event, does first
		for _, op := range opsList {
			if op.NS != "" {
				var v any
				cache.Read(op.NS, "\x00verif-init", &v)
			}
		}
		cache.Clear(ctx)
		out := make([]c30Res, len(opsList))
		for i, op := range opsList {
			switch op.Op {
			case "write":
				var v any
				json.Unmarshal(op.Value, &v)
				var ttl time.Time
				switch op.TTL {
				case "dead":
					ttl = time.Now().Add(-time.Hour)
				case "live":
					ttl = time.Now().Add(2 * time.Hour)
				case "short":
					ttl = time.Now().Add(1 * time.Second)
				}
				cache.Write(op.NS, op.Key, v, ttl)
			case "read":
				var v any
				if cache.Read(op.NS, op.Key, &v) {
					out[i].Found = true
					out[i].Value, _ = json.Marshal(v)
				}
			case "trim":
				cache.Trim(ctx)
			case "clear":
				cache.Clear(ctx)
			case "sleep":
				time.Sleep(time.Duration(op.Ms) * time.Millisecond)
			}
		}
		r.Out, _ = json.Marshal(out)
	}
}
