/* tagecho prints "external" followed by its arguments; installed under several names */
#include <stdio.h>
int main(int argc, char **argv) {
    printf("external");
    for (int i = 1; i < argc; i++) printf(" %s", argv[i]);
    printf("\n");
    return 0;
}
