/* exitsig exit N  -> exits with status N
 * exitsig sig N   -> kills itself with signal N (default disposition restored)
 * exitsig linger N -> exits with status N while a forked child keeps the inherited stdout/stderr open for 2 s
 * exitsig oe N OUT ERR -> writes OUT and a line feed to stdout, then ERR and a line feed to stderr, exits with N
 * optional third argument: text written to stdout first */
#include <signal.h>
#include <stdio.h>
#include <stdlib.h>
#include <string.h>
#include <unistd.h>
#include <sys/resource.h>

int main(int argc, char **argv) {
    if (argc < 3) return 250;
    if (argc > 3) { fputs(argv[3], stdout); fputc('\n', stdout); fflush(stdout); }
    int n = atoi(argv[2]);
    if (strcmp(argv[1], "exit") == 0) return n;
    if (strcmp(argv[1], "oe") == 0) {
        if (argc > 4) { fputs(argv[4], stderr); fputc('\n', stderr); fflush(stderr); }
        return n;
    }
    if (strcmp(argv[1], "sig") == 0) {
        struct rlimit rl = {0, 0};
        setrlimit(RLIMIT_CORE, &rl);
        signal(n, SIG_DFL);
        sigset_t set; sigemptyset(&set); sigaddset(&set, n);
        sigprocmask(SIG_UNBLOCK, &set, NULL);
        kill(getpid(), n);
        sleep(5);
        return 251;
    }
    if (strcmp(argv[1], "linger") == 0) {
        /* exits with status N straight away while a child that inherited stdout / stderr lives on for 2 s */
        pid_t pid = fork();
        if (pid == 0) { sleep(2); _exit(0); }
        return n;
    }
    return 252;
}
