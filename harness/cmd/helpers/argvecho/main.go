// argvecho prints its argv (without argv[0]) as one JSON array on stdout
package main

import (
	"encoding/json"
	"os"
)

func main() {
	args := os.Args[1:]
	if args == nil {
		args = []string{}
	}
	b, _ := json.Marshal(args)
	os.Stdout.Write(append(b, '\n'))
}
