// Native coverage-guided fuzz targets for C20 (parsers terminate without
// panicking) and C37 (highlighting preserves the text). Driven by bin/ctl, which
// builds this package with `go test -c -fuzz` and runs it count-bounded.
package fuzz

import (
	"regexp"
	"strings"
	"testing"
	"time"
	"unicode/utf8"

	"github.com/lmorg/murex/lang"
	"github.com/lmorg/murex/lang/expressions"
	"github.com/lmorg/murex/utils/parser"
)

// exact-capacity copy: spare capacity would hide a slice that runs past the end
func exact(s string) []rune {
	tmp := []rune(s)
	r := make([]rune, len(tmp))
	copy(r, tmp)
	return r[:len(r):len(r)]
}

func bounded(t *testing.T, what, in string, fn func()) {
	done := make(chan any, 1)
	go func() {
		defer func() { done <- recover() }()
		fn()
	}()
	select {
	case r := <-done:
		if r != nil {
			t.Fatalf("%s panicked on %q: %v", what, in, r)
		}
	case <-time.After(20 * time.Second):
		t.Fatalf("%s did not return on %q", what, in)
	}
}

func FuzzParseBlock(f *testing.F) {
	tp := lang.NewTestProcess()
	f.Fuzz(func(t *testing.T, in string) {
		if len(in) > 1200 || !utf8.ValidString(in) {
			t.Skip()
		}
		bounded(t, "ParseBlock", in, func() { lang.ParseBlock(exact(in)) })
		bounded(t, "ExpressionParser", in, func() { expressions.ExpressionParser(exact(in), 0, false) })
		bounded(t, "ParseStatement", in, func() { expressions.NewParser(tp, exact(in), 0).ParseStatement(false) })
		bounded(t, "parser.Parse", in, func() {
			parser.Parse(exact(in), 0)
			if n := utf8.RuneCountInString(in); n > 1 {
				parser.Parse(exact(in), n/2)
			}
		})
	})
}

var ansi = regexp.MustCompile("\x1b\\[[0-9;]*m")

func FuzzHighlight(f *testing.F) {
	f.Fuzz(func(t *testing.T, in string) {
		if len(in) > 1200 || !utf8.ValidString(in) || strings.ContainsRune(in, 0x1b) {
			t.Skip()
		}
		var hl string
		bounded(t, "parser.Parse", in, func() { _, hl = parser.Parse(exact(in), 0) })
		if got := ansi.ReplaceAllString(hl, ""); got != in {
			t.Fatalf("highlighting %q gives %q once the colour codes are removed", in, got)
		}
	})
}
