module verif

go 1.24.0

require (
	github.com/anishathalye/porcupine v1.3.0
	github.com/lmorg/murex v0.0.0
)

require (
	github.com/clbanning/mxj/v2 v2.7.0 // indirect
	github.com/clipperhouse/stringish v0.1.1 // indirect
	github.com/clipperhouse/uax29/v2 v2.3.1 // indirect
	github.com/creack/pty v1.1.24 // indirect
	github.com/disintegration/imaging v1.6.2 // indirect
	github.com/dustin/go-humanize v1.0.1 // indirect
	github.com/eliukblau/pixterm v1.3.2 // indirect
	github.com/fsnotify/fsnotify v1.9.0 // indirect
	github.com/google/uuid v1.6.0 // indirect
	github.com/lmorg/apachelogs v0.0.0-20161115121556-e5f3eae677ad // indirect
	github.com/lmorg/readline/v4 v4.2.2 // indirect
	github.com/lucasb-eyer/go-colorful v1.3.0 // indirect
	github.com/mattn/go-runewidth v0.0.19 // indirect
	github.com/pelletier/go-toml v1.9.5 // indirect
	github.com/phayes/permbits v0.0.0-20190612203442-39d7c581d2ee // indirect
	github.com/remyoudompheng/bigfft v0.0.0-20230129092748-24d4a6f8daec // indirect
	golang.org/x/exp v0.0.0-20260112195511-716be5621a96 // indirect
	golang.org/x/image v0.35.0 // indirect
	golang.org/x/sys v0.40.0 // indirect
	golang.org/x/text v0.33.0 // indirect
	gopkg.in/yaml.v3 v3.0.1 // indirect
	modernc.org/libc v1.67.6 // indirect
	modernc.org/mathutil v1.7.1 // indirect
	modernc.org/memory v1.11.0 // indirect
	modernc.org/sqlite v1.44.3 // indirect
)

replace github.com/lmorg/murex => /repo
