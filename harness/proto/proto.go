// Package proto is the wire format between the controller (cmd/ctl, which never
// links murex) and the workers (cmd/mxworker, which link murex from /repo).
package proto

import "encoding/json"

// Var is a variable preset through the Variables API before a program runs
type Var struct {
	Name  string `json:"name"`
	Type  string `json:"type"`
	Value string `json:"value"`
}

// Case is one unit of work for a worker
type Case struct {
	ID    string `json:"id"`
	Op    string `json:"op"` // "prog" or an API op name
	Block string `json:"block,omitempty"`
	// Blocks: several blocks executed one after the other, each in its own
	// fork and module (one Run per block); used instead of Block
	Blocks    []string `json:"blocks,omitempty"`
	HasStdin  bool     `json:"has_stdin,omitempty"`
	Stdin     []byte   `json:"stdin,omitempty"`
	StdinType string   `json:"stdin_type,omitempty"`
	Vars      []Var    `json:"vars,omitempty"`
	// YieldSeeds: the block is executed once per entry; 0 = perturbation off
	YieldSeeds []uint64 `json:"yield_seeds,omitempty"`
	Events     bool     `json:"events,omitempty"`
	// ReadVars: variables of the program's scope read back (as strings) after it ran
	ReadVars  []string `json:"read_vars,omitempty"`
	// ReadFiles: files (relative to the worker's private cwd) read back and removed after the program ran
	ReadFiles []string `json:"read_files,omitempty"`
	FIDCheck  bool     `json:"fid_check,omitempty"`
	// Drain: read the program's stdout/stderr concurrently (lifts the 1 MiB
	// buffer limit like a terminal would); needed for outputs above 1 MiB
	Drain bool `json:"drain,omitempty"`
	TimeoutMs int      `json:"timeout_ms,omitempty"`
	// IdleMs: wait after the program so that deferred goroutines fire
	IdleMs int             `json:"idle_ms,omitempty"`
	Args   json.RawMessage `json:"args,omitempty"`

	// controller side only (ignored by the worker)
	Expect json.RawMessage `json:"expect,omitempty"`
	Note   string          `json:"note,omitempty"`
}

// Ev mirrors verifhook.Ev
type Ev struct {
	Seq  uint64   `json:"seq"`
	Kind string   `json:"kind"`
	Args []string `json:"args,omitempty"`
}

// Run is the observation of one execution of a program
type Run struct {
	Stdout   []byte            `json:"stdout"`
	Stderr   []byte            `json:"stderr"`
	Exit     int               `json:"exit"`
	Err      string            `json:"err,omitempty"`
	Sig      uint64            `json:"sig,omitempty"`
	Hits     uint64            `json:"hits,omitempty"`
	Events   []Ev              `json:"events,omitempty"`
	OutType  string            `json:"out_type,omitempty"`
	FIDsLeft []string          `json:"fids_left,omitempty"`
	Vars     map[string]string `json:"vars,omitempty"`
	VarErrs  map[string]string `json:"var_errs,omitempty"`
	Files    map[string][]byte `json:"files,omitempty"`
}

// Result is what a worker returns for a case
type Result struct {
	ID    string          `json:"id"`
	Runs  []Run           `json:"runs,omitempty"`
	Out   json.RawMessage `json:"out,omitempty"`
	OSErr string          `json:"oserr,omitempty"` // bytes written to fd 1/2 of the worker during the case
	Error string          `json:"error,omitempty"` // harness-level error (bad op, ...)

	// Hang reporting (worker side watchdog)
	TimedOut   bool   `json:"timed_out,omitempty"`
	NoProgress bool   `json:"no_progress,omitempty"`
	Dump       string `json:"dump,omitempty"`

	// filled by the controller when the worker process died during the case
	Crash string `json:"crash,omitempty"`
}
